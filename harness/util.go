package main

import (
	"bytes"
	"errors"
	"fmt"
	"io"
	"os"
	"path"
	"runtime"
	"strconv"
	"strings"
	"sync"

	"github.com/flosch/pongo2/v6"
)

// ---------------------------------------------------------------- goroutine identity

func goid() int {
	var buf [64]byte
	n := runtime.Stack(buf[:], false)
	// "goroutine 123 ["
	s := string(buf[:n])
	s = strings.TrimPrefix(s, "goroutine ")
	i := strings.IndexByte(s, ' ')
	id, _ := strconv.Atoi(s[:i])
	return id
}

// ---------------------------------------------------------------- recording in-memory loader

type getRec struct {
	Loader string
	Path   string
	OK     bool
	Gid    int
}

type memLoader struct {
	mu    sync.Mutex
	name  string
	files map[string]string
	gets  []getRec
	abss  [][2]string
	onGet func(rec getRec, content string)
	outer *sync.Mutex // if set, held across the read and the onGet callback (makes read+log atomic)
}

func newMemLoader(name string, files map[string]string) *memLoader {
	m := &memLoader{name: name, files: map[string]string{}}
	for k, v := range files {
		m.files[k] = v
	}
	return m
}

func (m *memLoader) Abs(base, name string) string {
	var res string
	if strings.HasPrefix(name, "/") {
		res = path.Clean(name)
	} else {
		res = path.Join(path.Dir(base), name)
		if base == "" {
			res = path.Clean("/" + name)
		}
	}
	m.mu.Lock()
	m.abss = append(m.abss, [2]string{base, name})
	m.mu.Unlock()
	return res
}

func (m *memLoader) Get(p string) (io.Reader, error) {
	if m.outer != nil {
		m.outer.Lock()
		defer m.outer.Unlock()
	}
	m.mu.Lock()
	c, ok := m.files[p]
	rec := getRec{Loader: m.name, Path: p, OK: ok, Gid: goid()}
	m.gets = append(m.gets, rec)
	cb := m.onGet
	m.mu.Unlock()
	if cb != nil {
		cb(rec, c)
	}
	if !ok {
		return nil, errors.New("memLoader " + m.name + ": not found: " + p)
	}
	if strings.HasPrefix(c, brokenMark) {
		// the reader delivers a leading part (which is a well-formed template of its own) and then fails
		c = strings.TrimPrefix(c, brokenMark)
		return io.MultiReader(strings.NewReader(c[:len(c)/3]), failingReader{}), nil
	}
	return bytes.NewReader([]byte(c)), nil
}

const brokenMark = "\x00BROKEN:"

type failingReader struct{}

func (failingReader) Read(p []byte) (int, error) { return 0, io.ErrUnexpectedEOF }

func (m *memLoader) set(p, content string) {
	m.mu.Lock()
	m.files[p] = content
	m.mu.Unlock()
}

func (m *memLoader) del(p string) {
	m.mu.Lock()
	delete(m.files, p)
	m.mu.Unlock()
}

func (m *memLoader) getCount(p string) int {
	m.mu.Lock()
	defer m.mu.Unlock()
	n := 0
	for _, g := range m.gets {
		if g.Path == p {
			n++
		}
	}
	return n
}

// ---------------------------------------------------------------- safe calls

type outcome struct {
	Out   string
	Err   string // "" if none
	Panic string // "" if none
}

func (o outcome) class() string {
	switch {
	case o.Panic != "":
		return "panic"
	case o.Err != "":
		return "err"
	default:
		return "ok"
	}
}

// protect runs fn and converts a panic into an outcome.
func protect(fn func() (string, error)) (o outcome) {
	defer func() {
		if r := recover(); r != nil {
			o.Panic = fmt.Sprint(r)
			if o.Panic == "" {
				o.Panic = "panic"
			}
		}
	}()
	s, err := fn()
	o.Out = s
	if err != nil {
		o.Err = err.Error()
		if o.Err == "" {
			o.Err = "error"
		}
	}
	return
}

func compileString(set *pongo2.TemplateSet, src string) (tpl *pongo2.Template, o outcome) {
	o = protect(func() (string, error) {
		var err error
		tpl, err = set.FromString(src)
		return "", err
	})
	return
}

func execute(tpl *pongo2.Template, ctx pongo2.Context) outcome {
	return protect(func() (string, error) { return tpl.Execute(ctx) })
}

func render(set *pongo2.TemplateSet, src string, ctx pongo2.Context) outcome {
	tpl, o := compileString(set, src)
	if o.class() != "ok" {
		o.Err = "compile: " + o.Err
		return o
	}
	return execute(tpl, ctx)
}

// ---------------------------------------------------------------- event log

type evRec struct {
	Seq int    `json:"seq"`
	Gid int    `json:"gid"`
	Ev  string `json:"ev"`
	A   int    `json:"a"`
	B   int    `json:"b"`
	C   int    `json:"c"`
	D   int    `json:"d"`
	S   string `json:"s"`
	T   string `json:"t"`
	P   uint64 `json:"p"`
}

type evLog struct {
	mu    sync.Mutex
	recs  []evRec
	noGid bool // single-goroutine use: do not pay for the goroutine id (it walks the stack)
}

func (l *evLog) add(e evRec) {
	l.mu.Lock()
	e.Seq = len(l.recs) + 1
	l.recs = append(l.recs, e)
	l.mu.Unlock()
}

func (l *evLog) install() {
	pongo2.VerifTracer = func(e pongo2.VerifEvent) {
		gid := 0
		if !l.noGid {
			gid = goid()
		}
		l.add(evRec{Gid: gid, Ev: e.Ev, A: e.A, B: e.B, C: e.C, D: e.D, S: e.S, T: e.T, P: uint64(e.P)})
	}
}

func uninstallTracer() { pongo2.VerifTracer = nil }

func (l *evLog) take() []evRec {
	l.mu.Lock()
	r := l.recs
	l.recs = nil
	l.mu.Unlock()
	return r
}

func fatal(a ...interface{}) {
	fmt.Fprintln(os.Stderr, a...)
	os.Exit(3)
}
