package main

// C11: PongoLoader.tla vectors (virtual file trees over two loaders, a root template with references) are replayed
// with recording loaders. The virtual root is a real temporary directory that holds canary files under the same
// names, served by no loader: their text must never appear.

import (
	"bytes"
	"encoding/json"
	"errors"
	"fmt"
	"io"
	"os"
	"path"
	"path/filepath"
	"sort"
	"strings"
	"sync"

	"github.com/flosch/pongo2/v6"
)

type vfsLoader struct {
	mu    sync.Mutex
	id    int
	root  string
	rel   bool // relative flavour: names without a leading slash, like loaders built on fs.FS (Abs is not idempotent for them)
	files map[string]string
	gets  []string
}

// Abs works in the virtual tree (whose "/" is l.root on the real file system, so that OS access would be noticed):
// rooted names are taken from the virtual root, others relative to the referring template; ".." cannot leave the root.
func (l *vfsLoader) Abs(base, name string) string {
	if l.rel {
		if strings.HasPrefix(name, "/") {
			return strings.TrimPrefix(path.Clean(name), "/")
		}
		return strings.TrimPrefix(path.Clean("/"+path.Dir(base)+"/"+name), "/")
	}
	virt := func(p string) string { return strings.TrimPrefix(p, l.root) }
	var v string
	switch {
	case strings.HasPrefix(name, "/"):
		v = path.Clean("/" + virt(name))
	case base == "":
		v = path.Clean("/" + name)
	default:
		v = path.Clean("/" + path.Dir(virt(base)) + "/" + name)
	}
	return l.root + v
}

func (l *vfsLoader) Get(p string) (io.Reader, error) {
	l.mu.Lock()
	l.gets = append(l.gets, p)
	c, ok := l.files[p]
	l.mu.Unlock()
	if !ok {
		return nil, errors.New("vfs: not found: " + p)
	}
	return bytes.NewReader([]byte(c)), nil
}

type ldName struct {
	Rooted bool     `json:"rooted"`
	Segs   []string `json:"segs"`
}

type ldItem struct {
	T     string   `json:"t"`
	S     string   `json:"s"`
	Kind  string   `json:"kind"`
	Name  ldName   `json:"name"`
	Items []ldItem `json:"items"` // t = "block"
	Names []ldName `json:"names"` // t = "loop"
}

type ldFile struct {
	Path  []string `json:"path"`
	Items []ldItem `json:"items"`
}

type ldVector struct {
	Loaders [][]ldFile        `json:"loaders"`
	Root    ldName            `json:"root"`
	Out     []json.RawMessage `json:"out"`
	Err     string            `json:"err"`
	Asked   []struct {
		Loader int      `json:"loader"`
		Path   []string `json:"path"`
	} `json:"asked"`
}

func nameText(n ldName, root string) string {
	s := strings.Join(n.Segs, "/")
	if n.Rooted {
		return root + "/" + s
	}
	return s
}

func itemsText(items []ldItem, root string) (src string, lazyNames map[string]string) {
	lazyNames = map[string]string{}
	var b strings.Builder
	for i, it := range items {
		if it.T == "text" {
			b.WriteString(it.S)
			continue
		}
		if it.T == "loop" {
			v := fmt.Sprintf("lazyseq%d", i)
			var ns []string
			for _, n := range it.Names {
				ns = append(ns, nameText(n, root))
			}
			lazyNames[v] = strings.Join(ns, "\x00")
			ifx := ""
			if it.Kind == "lazy_if" {
				ifx = " if_exists"
			}
			fmt.Fprintf(&b, "{%% for lz in %s %%}[{%% include lz%s %%}]{%% endfor %%}", v, ifx)
			continue
		}
		if it.T == "block" {
			inner, ln := itemsText(it.Items, root)
			for k, v := range ln {
				lazyNames[k] = v
			}
			b.WriteString("{% block b %}" + inner + "{% endblock %}")
			continue
		}
		n := nameText(it.Name, root)
		switch it.Kind {
		case "include":
			fmt.Fprintf(&b, `{%% include "%s" %%}`, n)
		case "include_if":
			fmt.Fprintf(&b, `{%% include "%s" if_exists %%}`, n)
		case "lazy", "lazy_if":
			v := fmt.Sprintf("lazy%d", i)
			lazyNames[v] = n
			if it.Kind == "lazy" {
				fmt.Fprintf(&b, `{%% include %s %%}`, v)
			} else {
				fmt.Fprintf(&b, `{%% include %s if_exists %%}`, v)
			}
		case "extends":
			fmt.Fprintf(&b, `{%% extends "%s" %%}`, n)
		case "import":
			fmt.Fprintf(&b, `{%% import "%s" vm as imported_vm %%}`, n)
		case "ssi":
			fmt.Fprintf(&b, `{%% ssi "%s" %%}`, n)
		case "ssi_parsed":
			fmt.Fprintf(&b, `{%% ssi "%s" parsed %%}`, n)
		}
	}
	return b.String(), lazyNames
}

const macroPrefix = "{% macro vm() export %}m{% endmacro %}"

func cmdC11Replay(args []string) {
	rep := newReport("c11-replay")
	root, err := os.MkdirTemp("", "pvh_c11_")
	if err != nil {
		fatal(err)
	}
	defer os.RemoveAll(root)
	// canary files on the real file system under every virtual name, and in the working directory
	for _, rel := range []string{"a", "c", "r", "nope", "d/a", "d/c", "d/r"} {
		p := filepath.Join(root, rel)
		os.MkdirAll(filepath.Dir(p), 0o755)
		os.WriteFile(p, []byte("CANARY-OS-FILE"), 0o644)
	}
	wd, _ := os.MkdirTemp("", "pvh_c11_wd_")
	defer os.RemoveAll(wd)
	for _, rel := range []string{"a", "c", "nope", "d/a"} {
		p := filepath.Join(wd, rel)
		os.MkdirAll(filepath.Dir(p), 0o755)
		os.WriteFile(p, []byte("CANARY-CWD-FILE"), 0o644)
	}
	os.Chdir(wd)
	readVectors(func(raw json.RawMessage) {
		var v ldVector
		if err := json.Unmarshal(raw, &v); err != nil {
			fatal("bad vector", err)
		}
		rep.Vectors++
		for _, relFlavour := range []bool{false, true} {
			root := root
			if relFlavour {
				root = ""
			}
			rep.Checked++
			var loaders []*vfsLoader
			usesImport := strings.Contains(string(raw), `"kind": "import"`) || strings.Contains(string(raw), `"kind":"import"`)
			ctx := pongo2.Context{}
			raws := map[string]string{}
			// the files named by import references (resolved with the loader's own name rule)
			importTargets := map[string]bool{}
			if usesImport {
				tmp := &vfsLoader{root: root, rel: relFlavour}
				for _, files := range v.Loaders {
					for _, f := range files {
						var scan func(items []ldItem)
						scan = func(items []ldItem) {
							for _, it := range items {
								if it.Kind == "import" {
									importTargets[tmp.Abs(root+"/"+strings.Join(f.Path, "/"), nameText(it.Name, root))] = true
								}
								scan(it.Items)
							}
						}
						scan(f.Items)
					}
				}
			}
			for li, files := range v.Loaders {
				l := &vfsLoader{id: li + 1, root: root, rel: relFlavour, files: map[string]string{}}
				for _, f := range files {
					src, lazy := itemsText(f.Items, root)
					for k, n := range lazy {
						if strings.HasPrefix(k, "lazyseq") {
							ctx[k] = strings.Split(n, "\x00")
						} else {
							ctx[k] = n
						}
					}
					full := src
					if usesImport && (importTargets[root+"/"+strings.Join(f.Path, "/")] || importTargets[strings.Join(f.Path, "/")]) {
						full = macroPrefix + src // the file an import names must export the macro
					}
					p := root + "/" + strings.Join(f.Path, "/")
					if relFlavour {
						p = strings.Join(f.Path, "/")
					}
					l.files[p] = full
					raws[fmt.Sprintf("%d:%s", li+1, strings.Join(f.Path, "/"))] = full
				}
				loaders = append(loaders, l)
			}
			set := pongo2.NewSet("c11", loaders[0], loaders[1])
			rootName := nameText(v.Root, root)
			var tpl *pongo2.Template
			o := protect(func() (string, error) { var e error; tpl, e = set.FromFile(rootName); return "", e })
			if o.class() == "ok" {
				o = execute(tpl, ctx)
			}
			// expected output
			var want strings.Builder
			for _, piece := range v.Out {
				var s string
				if json.Unmarshal(piece, &s) == nil {
					want.WriteString(s)
					continue
				}
				var rawPiece []interface{}
				json.Unmarshal(piece, &rawPiece) // ["RAW", loader, path]
				var segs []string
				for _, x := range rawPiece[2].([]interface{}) {
					segs = append(segs, x.(string))
				}
				want.WriteString(raws[fmt.Sprintf("%v:%s", rawPiece[1], strings.Join(segs, "/"))])
			}
			desc := func() string {
				var parts []string
				for li, l := range loaders {
					var names []string
					for p, c := range l.files {
						names = append(names, strings.TrimPrefix(p, root)+"="+strings.TrimPrefix(c, macroPrefix))
					}
					sort.Strings(names)
					parts = append(parts, fmt.Sprintf("loader%d{%s}", li+1, strings.ReplaceAll(strings.Join(names, " ; "), root, "")))
				}
				return strings.Join(parts, " ") + " root=" + strings.TrimPrefix(rootName, root)
			}
			key := "loaders: " + desc()
			if relFlavour {
				key = "loaders (relative names): " + desc()
			}
			det := map[string]interface{}{"vector": raw, "cmd": "c11-replay"}
			if o.Panic != "" {
				rep.viol(key+": panic "+firstLine(o.Panic), det)
				continue
			}
			if strings.Contains(o.Out, "CANARY") {
				rep.viol(key+": output contains a file that no loader serves: "+o.Out, det)
				continue
			}
			if (o.Err != "") != (v.Err != "") {
				rep.viol(key+fmt.Sprintf(": error %q, specification %q (output %q)", firstLine(o.Err), v.Err, o.Out), det)
				continue
			}
			if o.Err == "" && o.Out != want.String() {
				rep.viol(key+fmt.Sprintf(": rendered %q, specification %q", o.Out, want.String()), det)
				continue
			}
			// the loaders were asked for exactly the resolutions of the names the templates involved refer to
			wantAsked := map[string]bool{}
			for _, a := range v.Asked {
				wantAsked[fmt.Sprintf("%d:/%s", a.Loader, strings.Join(a.Path, "/"))] = true
			}
			gotAsked := map[string]bool{}
			for _, l := range loaders {
				for _, g := range l.gets {
					if relFlavour {
						g = "/" + g
					}
					gotAsked[fmt.Sprintf("%d:%s", l.id, strings.TrimPrefix(g, root))] = true
				}
			}
			for g := range gotAsked {
				if !wantAsked[g] {
					rep.viol(key+fmt.Sprintf(": loader asked for %s, which no template involved refers to (specification: %v)", g, keys(wantAsked)), det)
					continue
				}
			}
			if o.Err == "" {
				for w := range wantAsked {
					if !gotAsked[w] {
						rep.viol(key+fmt.Sprintf(": loader was never asked for %s (asked: %v)", w, keys(gotAsked)), det)
						continue
					}
				}
			}
			if rep.Checked%2999 == 1 {
				rep.sample(map[string]interface{}{"setup": desc(), "output": want.String(), "error": v.Err, "asked": keys(wantAsked)})
			}
		}
	})
	rep.Distinct = rep.Checked
	rep.emit()
}

func keys(m map[string]bool) []string {
	var out []string
	for k := range m {
		out = append(out, k)
	}
	sort.Strings(out)
	return out
}

func init() { commands["c11-replay"] = cmdC11Replay }
