package main

// C07: expression trees printed by PongoExpr.tla (tokens with minimal parentheses) are written with random
// spacing and operator spellings, evaluated by the real engine in {{ e }} and {% if e %}, and compared with the
// canonical form of the specification's value.

import (
	"encoding/json"
	"fmt"
	"math/rand"
	"os"
	"strconv"
	"strings"

	"github.com/flosch/pongo2/v6"
)

type exprVector struct {
	Fam    string   `json:"fam"`
	Toks   []string `json:"toks"`
	Truthy bool     `json:"truthy"`
	Val    struct {
		K      string `json:"k"`
		N      int    `json:"n"`
		S      string `json:"s"`
		Neg    bool   `json:"neg"`
		Ip     int    `json:"ip"`
		Digits []int  `json:"digits"`
		Rest   bool   `json:"rest"`
	} `json:"val"`
}

func isWordTok(t string) bool {
	if t == "" {
		return false
	}
	c := t[len(t)-1]
	d := t[0]
	w := func(b byte) bool {
		return b == '_' || b == '.' || (b >= '0' && b <= '9') || (b >= 'a' && b <= 'z') || (b >= 'A' && b <= 'Z')
	}
	return w(c) && w(d)
}

// exprText joins tokens; rng chooses spacing and spellings.
func exprText(toks []string, rng *rand.Rand) string {
	var words []string
	for i := 0; i < len(toks); i++ {
		t := toks[i]
		switch t {
		case "F": // float literal n/d with a finite decimal expansion
			n, _ := strconv.Atoi(toks[i+1])
			d, _ := strconv.Atoi(toks[i+2])
			lit := strconv.FormatFloat(float64(n)/float64(d), 'f', -1, 64)
			if !strings.Contains(lit, ".") {
				lit += ".0" // a float literal stays a float literal
			}
			words = append(words, lit)
			i += 2
		case "S":
			words = append(words, `"`+toks[i+1]+`"`)
			i++
		case "and":
			words = append(words, []string{"and", "&&"}[rng.Intn(2)])
		case "or":
			words = append(words, []string{"or", "||"}[rng.Intn(2)])
		case "not":
			words = append(words, []string{"not", "!"}[rng.Intn(2)])
		case "!=":
			words = append(words, []string{"!=", "<>"}[rng.Intn(2)])
		default:
			words = append(words, t)
		}
	}
	var b strings.Builder
	for i, w := range words {
		if i > 0 {
			prev := words[i-1]
			need := isWordTok(prev) && isWordTok(w)
			// keep symbol pairs from fusing into another symbol ("< -" is fine, but "! =" / "| |" / "& &" / "= =" must not appear fused wrongly)
			if !need {
				pair := prev[len(prev)-1:] + w[:1]
				switch pair {
				case "==", "!=", "<=", ">=", "<>", "&&", "||", "{{", "}}", "{%", "%}", "-}", "{#", "#}":
					need = true
				}
			}
			if need || rng.Intn(2) == 0 {
				b.WriteString(strings.Repeat(" ", 1+rng.Intn(2)))
			}
		}
		b.WriteString(w)
	}
	return b.String()
}

// floatForms: the six-decimal renderings the specification admits (two on an exact tie).
func floatForms(neg bool, ip int, digits []int, rest bool) []string {
	base := ip
	frac := 0
	for i := 0; i < 6; i++ {
		frac = frac*10 + digits[i]
	}
	mk := func(up bool) string {
		ipp, fr := base, frac
		if up {
			fr++
			if fr == 1000000 {
				fr = 0
				ipp++
			}
		}
		s := fmt.Sprintf("%d.%06d", ipp, fr)
		if neg && (ipp != 0 || fr != 0) {
			s = "-" + s
		}
		return s
	}
	d7 := digits[6]
	switch {
	case d7 > 5 || (d7 == 5 && rest):
		return []string{mk(true)}
	case d7 == 5 && !rest:
		return []string{mk(true), mk(false)} // exact tie at the seventh decimal
	default:
		return []string{mk(false)}
	}
}

func cmdExprReplay(args []string) {
	rep := newReport("expr-replay")
	seed, _ := strconv.ParseInt(os.Getenv("VERIF_SEED"), 10, 64)
	rng := rand.New(rand.NewSource(seed))
	set := pongo2.NewSet("expr", newMemLoader("expr", nil))
	ctx := pongo2.Context{"l3": []int{3, 1, 2}, "ls": []string{"a", "b"}}
	pruned := 0
	seen := map[string]bool{}
	readVectors(func(raw json.RawMessage) {
		var v exprVector
		if err := json.Unmarshal(raw, &v); err != nil {
			fatal("bad vector", err)
		}
		rep.Vectors++
		if v.Val.K == "pruned" {
			pruned++
			return
		}
		e := exprText(v.Toks, rng)
		canon := strings.Join(v.Toks, " ")
		seen[canon] = true
		rep.Checked++
		o := render(set, "{% autoescape off %}{{ "+e+" }}{% endautoescape %}", ctx)
		oif := render(set, "{% if "+e+" %}T{% else %}F{% endif %}", ctx)
		key := fmt.Sprintf("expression[%s] %q (tokens %s)", v.Fam, e, canon)
		det := map[string]interface{}{"vector": raw, "text": e, "cmd": "expr-replay"}
		if o.Panic != "" || oif.Panic != "" {
			rep.viol(key+": panic "+firstLine(o.Panic+oif.Panic), det)
			return
		}
		if v.Val.K == "err" {
			if o.Err == "" || strings.HasPrefix(o.Err, "compile:") {
				rep.viol(key+fmt.Sprintf(": rendered %q %s, specification: execution error (%s)", o.Out, firstLine(o.Err), v.Val.S), det)
			}
			return
		}
		if o.Err != "" {
			rep.viol(key+": error "+firstLine(o.Err)+", specification: a value", det)
			return
		}
		var want []string
		switch v.Val.K {
		case "int":
			want = []string{strconv.Itoa(v.Val.N)}
		case "bool":
			want = []string{map[bool]string{true: "True", false: "False"}[v.Val.N == 1]}
		case "str":
			want = []string{v.Val.S}
		case "float":
			want = floatForms(v.Val.Neg, v.Val.Ip, v.Val.Digits, v.Val.Rest)
		default:
			fatal("value kind", v.Val.K)
		}
		got := o.Out
		if got == "-0.000000" { // IEEE negative zero; the rational model has one zero
			got = "0.000000"
		}
		ok := false
		for _, w := range want {
			if got == w {
				ok = true
			}
		}
		if !ok {
			rep.viol(key+fmt.Sprintf(": evaluates to %q, specification %v", o.Out, want), det)
			return
		}
		wantIf := map[bool]string{true: "T", false: "F"}[v.Truthy]
		if oif.Err != "" || oif.Out != wantIf {
			rep.viol(key+fmt.Sprintf(": {%% if %%} takes %q %s, specification %q", oif.Out, firstLine(oif.Err), wantIf), det)
		}
		if rep.Checked%9973 == 1 {
			rep.sample(map[string]interface{}{"expression": e, "value": want, "if": wantIf})
		}
	})
	rep.Skipped = pruned
	rep.Distinct = len(seen)
	rep.emit()
}

func init() { commands["expr-replay"] = cmdExprReplay }
