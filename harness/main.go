// Command pvh is the conformance harness binding the TLA+ specification under /verif/spec
// to the pongo2 implementation. Each sub-command reads vectors (behaviours printed by TLC,
// one JSON object per line) on stdin, drives the real API, and prints one JSON report on
// its last stdout line. Violations are reported in the JSON, never via the exit status.
package main

import (
	"bufio"
	"encoding/json"
	"fmt"
	"os"
	"sort"
)

type Violation struct {
	Key    string      `json:"key"`
	Detail interface{} `json:"detail"`
}

type Report struct {
	Cmd        string                 `json:"cmd"`
	Vectors    int                    `json:"vectors"`
	Checked    int                    `json:"checked"`
	Distinct   int                    `json:"distinct"`
	Skipped    int                    `json:"skipped"`
	Violations []Violation            `json:"violations"`
	NViol      int                    `json:"nviol"`
	Samples    []interface{}          `json:"samples"`
	Extra      map[string]interface{} `json:"extra"`
	TraceFile  string                 `json:"trace_file,omitempty"`
}

func newReport(cmd string) *Report {
	return &Report{Cmd: cmd, Extra: map[string]interface{}{}, Violations: []Violation{}, Samples: []interface{}{}}
}

func (r *Report) viol(key string, detail interface{}) {
	r.NViol++
	if len(r.Violations) < 5000 {
		r.Violations = append(r.Violations, Violation{key, detail})
	}
}

func (r *Report) sample(s interface{}) {
	if len(r.Samples) < 5 {
		r.Samples = append(r.Samples, s)
	}
}

func (r *Report) emit() {
	b, err := json.Marshal(r)
	if err != nil {
		fmt.Fprintln(os.Stderr, "marshal:", err)
		os.Exit(3)
	}
	fmt.Println(string(b))
}

// readVectors decodes one JSON object per stdin line and calls fn.
func readVectors(fn func(raw json.RawMessage)) {
	sc := bufio.NewScanner(os.Stdin)
	sc.Buffer(make([]byte, 1<<20), 1<<28)
	for sc.Scan() {
		line := sc.Bytes()
		if len(line) == 0 {
			continue
		}
		cp := make([]byte, len(line))
		copy(cp, line)
		fn(json.RawMessage(cp))
	}
	if err := sc.Err(); err != nil {
		fmt.Fprintln(os.Stderr, "stdin:", err)
		os.Exit(3)
	}
}

var commands = map[string]func(args []string){}

func main() {
	if len(os.Args) < 2 {
		names := []string{}
		for k := range commands {
			names = append(names, k)
		}
		sort.Strings(names)
		fmt.Fprintln(os.Stderr, "usage: pvh <command> [args]; commands:", names)
		os.Exit(3)
	}
	fn, ok := commands[os.Args[1]]
	if !ok {
		fmt.Fprintln(os.Stderr, "unknown command", os.Args[1])
		os.Exit(3)
	}
	fn(os.Args[2:])
}
