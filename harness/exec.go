package main

// PongoExec.tla bindings.
//   c14-replay : single executions with injected faults (k-th node fails, the caller's writer fails from its w-th
//                Write) through the four entry points; returned text/error and what the writer received must
//                equal the specification's.
//   c04-replay : histories of executions on ONE compiled template, for real programs; after every execution the
//                result must equal that of a fresh compile executed once (the uninterpreted Result(prog, ctx) of the
//                specification), and the digest of everything reachable from the template must be unchanged.
//   c05-forced : two goroutines execute one compiled template under a forced schedule (gate before every node).

import (
	"bytes"
	"encoding/json"
	"errors"
	"fmt"
	"hash/fnv"
	"os"
	"sort"
	"strconv"
	"strings"
	"sync"
	"time"

	"github.com/flosch/pongo2/v6"
)

var errWriter = errors.New("verif: caller's writer refuses")

type faultWriter struct {
	failFrom int  // fail from this Write call on (1-based); 0 = never
	full     bool // a failing call still takes everything it is given (and says so) before reporting its error
	calls    int
	got      bytes.Buffer
	chunks   []string
}

func (w *faultWriter) Write(p []byte) (int, error) {
	w.calls++
	if w.failFrom != 0 && w.calls >= w.failFrom {
		if w.full {
			w.got.Write(p)
			w.chunks = append(w.chunks, string(p))
			return len(p), errWriter
		}
		return 0, errWriter
	}
	w.got.Write(p)
	w.chunks = append(w.chunks, string(p))
	return len(p), nil
}

type execHist struct {
	Entry  string          `json:"entry"`
	Ctx    string          `json:"ctx"`
	FailAt int             `json:"failAt"`
	FailIn int             `json:"failIn"`
	WFail  int             `json:"wfail"`
	WKind  string          `json:"wkind"`
	Sink   [][]interface{} `json:"sink"`
	Out    [][]interface{} `json:"out"`
	Err    string          `json:"err"`
}

type execVector struct {
	NChunks int        `json:"nchunks"`
	InclAt  int        `json:"inclat"`
	Hist    []execHist `json:"hist"`
}

func chunkText(c []interface{}) string {
	return fmt.Sprintf("%v%v;", c[0], c[1])
}

func chunksText(cs [][]interface{}) string {
	var b strings.Builder
	for _, c := range cs {
		b.WriteString(chunkText(c))
	}
	return b.String()
}

// runEntry executes tpl through one of the four entry points.
func runEntry(tpl *pongo2.Template, entry string, ctx pongo2.Context, w *faultWriter) (out string, err error, pan string) {
	defer func() {
		if r := recover(); r != nil {
			pan = fmt.Sprint(r)
		}
	}()
	switch entry {
	case "Execute":
		out, err = tpl.Execute(ctx)
	case "ExecuteBytes":
		var b []byte
		b, err = tpl.ExecuteBytes(ctx)
		out = string(b)
	case "ExecuteWriter":
		err = tpl.ExecuteWriter(ctx, w)
	case "Unbuffered":
		err = tpl.ExecuteWriterUnbuffered(ctx, w)
	default:
		fatal("entry", entry)
	}
	return
}

// holdWriter takes part in an execution the way a slow consumer does: its first Write waits (while it holds the bytes it
// was given, as io.Writer allows for the duration of the call) until it is released, and only then copies them.
type holdWriter struct {
	got     bytes.Buffer
	entered chan struct{}
	release chan struct{}
	held    bool
}

func (w *holdWriter) Write(p []byte) (int, error) {
	if !w.held {
		w.held = true
		close(w.entered)
		<-w.release
	}
	w.got.Write(p)
	return len(p), nil
}

// overlapEntries runs entry point `a` of the template with a slow consumer and, while that execution is under way, entry
// point `b` of the same template to completion; returns what each caller received.
func overlapEntries(tpl *pongo2.Template, ctx pongo2.Context, a, b string) (first, second string, problem string) {
	hw := &holdWriter{entered: make(chan struct{}), release: make(chan struct{})}
	done := make(chan error, 1)
	go func() {
		defer func() {
			if r := recover(); r != nil {
				done <- fmt.Errorf("panic: %v", r)
			}
		}()
		if a == "Unbuffered" {
			done <- tpl.ExecuteWriterUnbuffered(ctx, hw)
		} else {
			done <- tpl.ExecuteWriter(ctx, hw)
		}
	}()
	select {
	case <-hw.entered:
	case err := <-done:
		return hw.got.String(), "", fmt.Sprintf("the first execution ended before writing (%v)", err)
	case <-time.After(5 * time.Second):
		return "", "", "SKIP: the first execution never wrote"
	}
	w2 := &faultWriter{}
	out2, err2, pan2 := runEntry(tpl, b, ctx, w2)
	if b == "ExecuteWriter" || b == "Unbuffered" {
		out2 = w2.got.String()
	}
	close(hw.release)
	err1 := <-done
	if err1 != nil || err2 != nil || pan2 != "" {
		problem = fmt.Sprintf("errors: %v / %v %s", err1, err2, pan2)
	}
	return hw.got.String(), out2, problem
}

func cmdC14Replay(args []string) {
	rep := newReport("c14-replay")
	seen := map[string]bool{}
	readVectors(func(raw json.RawMessage) {
		var v execVector
		if err := json.Unmarshal(raw, &v); err != nil {
			fatal("bad vector", err)
		}
		rep.Vectors++
		for _, h := range v.Hist {
			// the template: node i writes "c<i>;" - as a variable node, so that every node is one write
			var src strings.Builder
			for i := 1; i <= v.NChunks; i++ {
				switch {
				case i == v.InclAt:
					src.WriteString(`{% include "/inc" %}`)
				case i == h.FailAt:
					src.WriteString("{{ fail() }}")
				default:
					fmt.Fprintf(&src, `{{ "c%d;" }}`, i)
				}
			}
			inc := ""
			for j := 1; j <= 2; j++ {
				if h.FailAt == v.InclAt && h.FailIn == j {
					inc += "{{ fail() }}"
				} else {
					inc += fmt.Sprintf(`{{ "i%d;" }}`, j)
				}
			}
			key := fmt.Sprintf("%s|%s|%s|w%d%s", src.String(), inc, h.Entry, h.WFail, h.WKind)
			if seen[key] {
				continue
			}
			seen[key] = true
			rep.Checked++
			set := pongo2.NewSet("c14", newMemLoader("c14", map[string]string{"/inc": inc}))
			tpl, o := compileString(set, src.String())
			if o.class() != "ok" {
				fatal("c14 template does not compile:", src.String(), o.Err)
			}
			ctx := pongo2.Context{"fail": func() (string, error) { return "", errors.New("injected failure") }}
			w := &faultWriter{failFrom: h.WFail, full: h.WKind == "full"}
			out, err, pan := runEntry(tpl, h.Entry, ctx, w)
			desc := fmt.Sprintf("fault injection: template %q include %q via %s, writer fails from write %d (%s)", src.String(), inc, h.Entry, h.WFail, h.WKind)
			viol := func(what string) {
				rep.viol(desc+": "+what, map[string]interface{}{"vector": raw, "cmd": "c14-replay"})
			}
			if pan != "" {
				viol("panic " + firstLine(pan))
				continue
			}
			gotErr := ""
			if err != nil {
				gotErr = "exec"
				if errors.Is(err, errWriter) || strings.Contains(err.Error(), errWriter.Error()) {
					gotErr = "writer"
				}
			}
			if gotErr != h.Err {
				viol(fmt.Sprintf("returned error class %q (%v), specification %q", gotErr, err, h.Err))
			}
			if out != chunksText(h.Out) {
				viol(fmt.Sprintf("returned %q, specification %q", out, chunksText(h.Out)))
			}
			if w.got.String() != chunksText(h.Sink) {
				viol(fmt.Sprintf("the caller's writer received %q, specification %q", w.got.String(), chunksText(h.Sink)))
			}
			// two executions of the template under way at once (a slow consumer holds the first one inside its first Write):
			// each caller still receives exactly the full output - the variants agree, whoever else is executing
			if h.FailAt == 0 && h.WFail == 0 && gotErr == "" && !seen["overlap|"+src.String()+"|"+inc+"|"+h.Entry] {
				seen["overlap|"+src.String()+"|"+inc+"|"+h.Entry] = true
				full := w.got.String()
				if h.Entry == "Execute" || h.Entry == "ExecuteBytes" {
					full = out
				}
				for _, first := range []string{"Unbuffered", "ExecuteWriter"} {
					o1, o2, prob := overlapEntries(tpl, ctx, first, h.Entry)
					if strings.HasPrefix(prob, "SKIP") {
						continue
					}
					if prob != "" || o1 != full || o2 != full {
						viol(fmt.Sprintf("while an %s execution of the same template was under way (held in its first Write): that execution delivered %q, this one %q, alone each delivers %q %s", first, o1, o2, full, prob))
					}
				}
			}
			if rep.Checked%37 == 1 {
				rep.sample(map[string]interface{}{"template": src.String(), "include": inc, "entry": h.Entry, "writer_fails_from": h.WFail,
					"returned": out, "error": gotErr, "writer_received": w.got.String()})
			}
		}
	})
	// Agree also covers what is decided before the first node runs (the checks on the caller's context): the four entry
	// points refuse the same calls, for templates with and without a parent, with macros exported by either
	agreeFiles := map[string]string{
		"/pb":     "P{% block b %}pb{% endblock %}",
		"/pmacro": "{% macro hello() export %}ph{% endmacro %}P{% block b %}pb{% endblock %}",
		"/mid":    `{% extends "/pb" %}{% macro hello() export %}mh{% endmacro %}`,
	}
	agreeSrcs := []string{
		`{% macro hello() export %}h{% endmacro %}x{{ name }}`,
		`{% extends "/pb" %}{% macro hello() export %}ch{% endmacro %}{% block b %}c{{ name }}{% endblock %}`,
		`{% extends "/pmacro" %}{% block b %}c{{ name }}{% endblock %}`,
		`{% extends "/mid" %}{% block b %}c{{ name }}{% endblock %}`,
		`{% extends "/pb" %}{% block b %}{% macro inner() export %}i{% endmacro %}c{% endblock %}`,
		`plain {{ name }}`,
	}
	agreeCtxs := map[string]pongo2.Context{
		"clash": {"hello": "ctx"}, "clash-inner": {"inner": 1}, "bad-key": {"bad-key": 1}, "ok": {"name": "n"}, "nil": nil, "empty": {},
	}
	for _, src := range agreeSrcs {
		for cname, c := range agreeCtxs {
			for _, withGlobal := range []bool{false, true} {
				set := pongo2.NewSet("c14a", newMemLoader("c14a", agreeFiles))
				if withGlobal {
					set.Globals["hello"] = "global"
				}
				tpl, co := compileString(set, src)
				if co.class() != "ok" {
					fatal("c14 agreement template does not compile:", src, co.Err)
				}
				rep.Checked++
				var firstErr, firstOut string
				for ei, entry := range []string{"Execute", "ExecuteBytes", "ExecuteWriter", "Unbuffered"} {
					w := &faultWriter{}
					out, err, pan := runEntry(tpl, entry, c, w)
					if entry == "ExecuteWriter" || entry == "Unbuffered" {
						out = w.got.String()
					}
					e := ""
					if err != nil {
						e = firstLine(err.Error())
					}
					if pan != "" {
						rep.viol(fmt.Sprintf("variants: template %q context %s via %s: panic %s", src, cname, entry, firstLine(pan)), map[string]interface{}{"cmd": "c14-replay"})
						break
					}
					if ei == 0 {
						firstErr, firstOut = e, out
						continue
					}
					if (e == "") != (firstErr == "") || (e == "" && out != firstOut) {
						rep.viol(fmt.Sprintf("variants: template %q context %s (global hello: %v): Execute gives %q / %q, %s gives %q / %q", src, cname, withGlobal, firstOut, firstErr, entry, out, e),
							map[string]interface{}{"cmd": "c14-replay"})
						break
					}
				}
			}
		}
	}
	rep.Distinct = len(seen)
	rep.emit()
}

// ---------------------------------------------------------------- C04 histories on real programs

type progCase struct {
	Name  string
	Src   string
	Files map[string]string
	Ctx   map[string]pongo2.Context // c1, c2, cbad
	Want  map[string]string         // context name -> rendering known independently of any execution (optional)
}

func loadPrograms(path string) []progCase {
	b, err := os.ReadFile(path)
	if err != nil {
		fatal(err)
	}
	var out []progCase
	for _, line := range strings.Split(string(b), "\n") {
		if strings.TrimSpace(line) == "" {
			continue
		}
		var v renderVector
		if err := json.Unmarshal([]byte(line), &v); err != nil {
			fatal("bad program line", err)
		}
		pc := progCase{Files: map[string]string{}, Ctx: map[string]pongo2.Context{}}
		func() {
			defer func() {
				if r := recover(); r != nil {
					pc.Src = ""
				}
			}()
			pc.Src = printNodes(v.Prog)
			for name, nodes := range v.Files {
				if !strings.HasPrefix(name, "/") {
					name = "/" + name
				}
				pc.Files[name] = printNodes(nodes)
			}
			pc.Ctx["c1"] = buildContext(v.Ctx)
		}()
		if pc.Src == "" {
			continue
		}
		pc.Name = v.M
		out = append(out, pc)
	}
	return out
}

// variant contexts: c2 = c1 with every list reversed/extended and every string changed; cbad = c1 plus an invalid key
func variantCtx(c1 pongo2.Context, which string) pongo2.Context {
	out := pongo2.Context{}
	for k, v := range c1 {
		out[k] = v
	}
	switch which {
	case "c1":
	case "c2":
		for k, v := range c1 {
			if k == "anon" || k == "anons" {
				continue
			}
			switch x := v.(type) {
			case []interface{}:
				y := append([]interface{}{}, x...)
				for i, j := 0, len(y)-1; i < j; i, j = i+1, j-1 {
					y[i], y[j] = y[j], y[i]
				}
				out[k] = append(y, 9)
			case string:
				out[k] = x + "q"
			case int:
				out[k] = x + 1
			case bool:
				out[k] = !x
			}
		}
		if _, ok := c1["anon"]; ok {
			// another struct type with the same field names in another order (both types are anonymous: they have no name of their own)
			out["anon"] = struct {
				Age  int
				Name string
			}{7, "amy"}
			out["anons"] = []interface{}{struct{ B, A string }{"b2", "a2"}, struct{ A, B string }{"a3", "b3"}}
		}
	case "cbad":
		if _, mid := c1["boom"]; mid {
			// the execution fails at the node that calls boom(), after everything before it has been rendered
			out["boom"] = func() (string, error) { return "", errors.New("injected failure") }
		} else {
			out["bad-key"] = 1
		}
	}
	return out
}

func digestStr(s string) string {
	h := fnv.New64a()
	h.Write([]byte(s))
	return strconv.FormatUint(h.Sum64(), 16)
}

// extraPrograms: one snippet per registered tag (registry driven), at top level, in a loop, in a block and in an
// included file; plus the repository's fixtures that need no special context.
func extraPrograms() []progCase {
	var out []progCase
	ctx := func() pongo2.Context {
		c := routeContext()
		c["x"] = "v<1>"
		return c
	}
	files := map[string]string{"/inc0": "i0{{ sv }}", "/base0": "b0{% block bb %}B{% endblock %}", "/lib0": "{% macro m0() export %}m{{ sv }}{% endmacro %}"}
	for _, tag := range pongo2.VerifRegisteredTags() {
		snip, known := tagSnippet(tag)
		if !known || tag == "extends" {
			continue
		}
		if tag == "now" {
			snip = `{% now "2006" fake %}`
		}
		if tag == "lorem" {
			snip = `{% lorem 2 w %}`
		}
		shapes := map[string]string{
			"top":   "A" + snip + "\n\nB" + snip + "C",
			"loop":  "{% for i in l3 %}" + snip + "{{ i }}{% endfor %}",
			"block": "{% block outer %}\n\n" + snip + "{% endblock %}\n\nz",
			"incl":  `{% include "/snip" %}{% include "/snip" %}`,
		}
		for shape, src := range shapes {
			f := map[string]string{"/snip": snip + "{{ sv }}"}
			for k, v := range files {
				f[k] = v
			}
			c := ctx()
			c["l3"] = []interface{}{1, 2, 2}
			out = append(out, progCase{Name: "tag:" + tag + ":" + shape, Src: src, Files: f, Ctx: map[string]pongo2.Context{"c1": c}})
		}
	}
	// one program per registered filter (registry driven): shared state inside a filter is shared by all executions
	for _, f := range pongo2.VerifRegisteredFilters() {
		if f == "random" {
			continue
		}
		expr, _, _ := filterExpr(f)
		src := "{% for i in l3 %}{{ " + expr + " }}{{ x|" + f + " }}{% endfor %}{% filter " + f + " %}{{ x }} a<b>{% endfilter %}"
		c := ctx()
		c["l3"] = []interface{}{1, 2, 2}
		out = append(out, progCase{Name: "filter:" + f, Src: src, Files: files, Ctx: map[string]pongo2.Context{"c1": c}})
	}
	// a failure in the middle of every construct that renders a body (the failing execution of a history is the one with the
	// context in which boom() fails), the same construct once more behind it, inside and outside a loop
	bodies := map[string]string{
		"if": "{% if 1 %}@{% endif %}", "for": "{% for j in l3 %}@{% endfor %}", "with": "{% with q=1 %}@{% endwith %}",
		"filter": "{% filter upper %}@{% endfilter %}", "filter2": "{% filter lower|upper %}{% filter cut:\"x\" %}@{% endfilter %}{% endfilter %}",
		"spaceless": "{% spaceless %}<b> @ </b> <i>{% endspaceless %}", "autoescape": "{% autoescape off %}@{% endautoescape %}",
		"block": "{% block zz# %}@{% endblock %}", "ifchanged": "{% ifchanged %}@{% endifchanged %}", "ifequal": "{% ifequal 1 1 %}@{% endifequal %}",
		"macro": "{% macro mf#() %}@{% endmacro %}{{ mf#() }}", "include": "{% include \"/boomfile\" %}@", "set": "{% set q = boom() %}@", "firstof": "{% firstof boom() %}@",
		"cycle": "{% cycle boom() \"z\" %}@", "widthratio": "{% widthratio 1 2 boom() %}@",
	}
	for name, shape := range bodies {
		mk := func(n string, body string) string {
			return strings.ReplaceAll(strings.ReplaceAll(shape, "#", n), "@", body)
		}
		src := "A" + mk("1", "a{{ boom() }}b{{ sv }}") + "B" + mk("2", "c{{ sv }}") + "{% for i in l3 %}" + mk("3", "d{{ i }}") + "{% endfor %}"
		if name == "block" || name == "macro" {
			src = "A" + mk("1", "a{{ boom() }}b{{ sv }}") + "B" + mk("2", "c{{ sv }}")
		}
		c := ctx()
		c["l3"] = []interface{}{1, 2, 2}
		c["boom"] = func() (string, error) { return "ok", nil }
		f := map[string]string{"/boomfile": "f{{ sv }}{{ boom() }}g"}
		for k, v := range files {
			f[k] = v
		}
		out = append(out, progCase{Name: "midfail:" + name, Src: src, Files: f, Ctx: map[string]pongo2.Context{"c1": c}})
	}
	// values whose Go types differ from context to context while their field names agree
	{
		c := ctx()
		c["anon"] = struct {
			Name string
			Age  int
		}{"bob", 41}
		c["anons"] = []interface{}{struct{ A, B string }{"a0", "b0"}, struct{ B, A string }{"b1", "a1"}}
		out = append(out, progCase{Name: "types:anon", Src: "{{ anon.Name }}/{{ anon.Age }}{% for s in anons %};{{ s.A }}{{ s.B }}{% endfor %}", Files: files,
			Ctx: map[string]pongo2.Context{"c1": c}, Want: map[string]string{"c1": "bob/41;a0b0;a1b1", "c2": "amy/7;a2b2;a3b3"}})
	}
	// calls: every signature shape of a context function x 0..8 written arguments, evaluated twice per execution
	// (a compiled call's argument list belongs to the template: executing it must leave it as it was)
	callees := []string{"fctxv", "fsum", "fctx", "fanyv", "fcat", "fm1", "rptr.M1", "rstruct.Fn", "nope"}
	for _, fn := range callees {
		for n := 0; n <= 8; n++ {
			var as []string
			for k := 0; k < n; k++ {
				as = append(as, []string{"i", strconv.Itoa(k + 1), "nv"}[k%3])
			}
			src := "{% for i in l3 %}{{ " + fn + "(" + strings.Join(as, ", ") + ") }};{% endfor %}{% if " + fn + "(" + strings.Join(as, ", ") + ") %}t{% endif %}"
			c := ctx()
			for k, v := range resolveCatalogue() {
				c[k] = v
			}
			c["l3"] = []interface{}{1, 2, 2}
			out = append(out, progCase{Name: "call:" + fn + ":" + strconv.Itoa(n), Src: src, Files: files, Ctx: map[string]pongo2.Context{"c1": c}})
		}
	}
	// failure paths of the filters (registry driven): inputs and parameters a filter may refuse, at two places of one template;
	// every execution fails (or not) the same way, with the same message and position
	for _, f := range pongo2.VerifRegisteredFilters() {
		if f == "random" {
			continue
		}
		for i, shape := range []string{`{{ sv|F }}|{{ sv|F }}`, `{{ nv|F:"a,b,c,d" }}|{{ nv|F:"a,b,c,d" }}`, `{{ l|F:100000 }}|{{ l|F:100000 }}`, `{{ nope|F:sv }}{% filter F:-5 %}x{% endfilter %}`} {
			c := ctx()
			out = append(out, progCase{Name: fmt.Sprintf("errpath:%s:%d", f, i), Src: "a\n  " + strings.ReplaceAll(shape, "F", f) + "z", Files: files, Ctx: map[string]pongo2.Context{"c1": c}})
		}
	}
	// what one execution leaves behind in the *set* (not in the template) must not reach the next one: programs whose two
	// contexts take different routes to the same missing / existing file (optional vs strict computed include, in and
	// outside a loop, through a macro); these run under every sequence of contexts (prefix "hist:")
	for name, src := range map[string]string{
		"optinc":      `[{% with n="/nofile" %}{% if bt %}{% include n if_exists %}{% else %}{% include n %}{% endif %}{% endwith %}]`,
		"optinc-loop": `[{% for n in names %}{% if bt %}{% include n if_exists %}{% else %}{% include n %}{% endif %};{% endfor %}]`,
		"optinc-two":  `[{% with n="/nofile" %}{% if bt %}{% include n if_exists %}{% endif %}{% include "/inc0" %}{% if not bt %}{% include n %}{% endif %}{% endwith %}]`,
		"optinc-mac":  `{% macro inc(n, opt) %}{% if opt %}{% include n if_exists %}{% else %}{% include n %}{% endif %}{% endmacro %}[{{ inc("/nofile", bt) }}|{{ inc("/inc0", bt) }}]`,
	} {
		c := ctx()
		c["bt"] = true
		c["names"] = []interface{}{"/inc0", "/nofile"}
		out = append(out, progCase{Name: "hist:" + name, Src: src, Files: files, Ctx: map[string]pongo2.Context{"c1": c}})
	}
	out = append(out, progCase{Name: "extends", Src: `{% extends "/base0" %}{% block bb %}{% cycle "a" "b" %}{{ block.Super }}{% endblock %}`,
		Files: files, Ctx: map[string]pongo2.Context{"c1": ctx()}})
	out = append(out, progCase{Name: "trim", Src: "{% if 1 %}\n\n\n  x  {% endif %}\n\n  {% set a=1 %}\n\ny", Files: files, Ctx: map[string]pongo2.Context{"c1": ctx()}})
	return out
}

func cmdC04Replay(args []string) {
	rep := newReport("c04-replay")
	if len(args) < 2 {
		fatal("usage: c04-replay <programs.ndjson> <maxHistoriesPerProgram>   (histories on stdin)")
	}
	progs := append(loadPrograms(args[0]), extraPrograms()...)
	perProg, _ := strconv.Atoi(args[1])
	seed, _ := strconv.Atoi(os.Getenv("VERIF_SEED"))
	var hists [][]execHist
	seenH := map[string]bool{}
	readVectors(func(raw json.RawMessage) {
		var v execVector
		if err := json.Unmarshal(raw, &v); err != nil {
			fatal("bad vector", err)
		}
		rep.Vectors++
		var k strings.Builder
		for _, h := range v.Hist {
			fmt.Fprintf(&k, "%s/%s/%d;", h.Entry, h.Ctx, h.FailAt)
		}
		if !seenH[k.String()] {
			seenH[k.String()] = true
			hists = append(hists, v.Hist)
		}
	})
	sort.Slice(hists, func(i, j int) bool { return fmt.Sprint(hists[i]) < fmt.Sprint(hists[j]) })
	// one history per distinct sequence of contexts (for the "hist:" programs, which run all of them)
	var seqHists [][]execHist
	seenSeq := map[string]bool{}
	for _, h := range hists {
		var k strings.Builder
		for _, st := range h {
			fmt.Fprintf(&k, "%s/%v;", st.Ctx, st.FailAt != 0)
		}
		if !seenSeq[k.String()] {
			seenSeq[k.String()] = true
			seqHists = append(seqHists, h)
		}
	}
	rep.Extra["context_sequences"] = len(seqHists)
	rep.Extra["histories"] = len(hists)
	rep.Extra["programs"] = len(progs)
	optCombos := [][2]bool{{false, false}, {true, false}, {false, true}, {true, true}}
	for pi, p := range progs {
		for oi, opt := range optCombos {
			// reference: compile afresh, execute once  (the specification's uninterpreted Result(prog, ctx))
			ref := map[string]outcome{}
			refOf := func(cname string) outcome {
				if o, ok := ref[cname]; ok {
					return o
				}
				set := pongo2.NewSet("ref", newMemLoader("ref", p.Files))
				set.Options.TrimBlocks, set.Options.LStripBlocks = opt[0], opt[1]
				o := render(set, p.Src, variantCtx(p.Ctx["c1"], cname))
				ref[cname] = o
				return o
			}
			if refOf("c1").Panic != "" || strings.HasPrefix(refOf("c1").Err, "compile:") {
				continue // not a compilable program under these options; totality is C01's subject
			}
			nh := perProg
			if strings.HasPrefix(p.Name, "hist:") {
				nh = len(seqHists)
			}
			for hi := 0; hi < nh; hi++ {
				h := hists[(pi*131+oi*17+hi*7919+seed*104729)%len(hists)]
				if strings.HasPrefix(p.Name, "hist:") {
					h = seqHists[hi]
				}
				set := pongo2.NewSet("c04", newMemLoader("c04", p.Files))
				set.Options.TrimBlocks, set.Options.LStripBlocks = opt[0], opt[1]
				tpl, o := compileString(set, p.Src)
				if o.class() != "ok" {
					continue
				}
				d0 := pongo2.VerifTemplateDigest(tpl)
				rep.Checked++
				var hdesc []string
				for si, step := range h {
					cname := step.Ctx
					if step.FailAt != 0 {
						cname = "cbad" // the failing execution of the history
					}
					hdesc = append(hdesc, step.Entry+"("+cname+")")
					w := &faultWriter{}
					out, err, pan := runEntry(tpl, step.Entry, variantCtx(p.Ctx["c1"], cname), w)
					if step.Entry == "ExecuteWriter" || step.Entry == "Unbuffered" {
						out = w.got.String()
					}
					want := refOf(cname)
					if known, ok := p.Want[cname]; ok && (want.Err != "" || want.Out != known) {
						rep.viol(fmt.Sprintf("history: program %s %q context %s: a fresh compile executed once renders %q %s, the known rendering is %q (state outside the template outlives executions)",
							p.Name, p.Src, cname, want.Out, firstLine(want.Err), known), map[string]interface{}{"cmd": "c04-replay", "program": p.Src})
						break
					}
					key := fmt.Sprintf("history: program %s %q TrimBlocks=%v LStripBlocks=%v, history %s, execution %d", p.Name, p.Src, opt[0], opt[1], strings.Join(hdesc, " "), si+1)
					det := map[string]interface{}{"cmd": "c04-replay", "program": p.Src, "files": p.Files, "history": hdesc}
					if pan != "" {
						rep.viol(key+": panic "+firstLine(pan), det)
						break
					}
					if (err != nil) != (want.Err != "") {
						rep.viol(key+fmt.Sprintf(": error %v, a fresh compile executed once: %q", err, want.Err), det)
						break
					}
					if err == nil && out != want.Out {
						rep.viol(key+fmt.Sprintf(": rendered %q, a fresh compile executed once renders %q", out, want.Out), det)
						break
					}
					if err != nil && firstLine(err.Error()) != firstLine(want.Err) {
						rep.viol(key+fmt.Sprintf(": error %q, a fresh compile executed once: %q", firstLine(err.Error()), firstLine(want.Err)), det)
						break
					}
					// the error of an execution is its own: positioned in the text of this template (or of one of its files) at the token it names
					if pe := asPongoError(err); pe != nil && pe.Line > 0 {
						named, ok := p.Src, pe.Filename == "<string>"
						if !ok {
							named, ok = p.Files[pe.Filename]
						}
						if ok {
							if prob := checkErrorPosition(pe, named, false); prob != "" {
								rep.viol(key+": the error does not belong to this execution: "+prob+" ("+firstLine(err.Error())+")", det)
								break
							}
						}
					}
					if err != nil && step.Entry != "Unbuffered" && out != "" {
						rep.viol(key+fmt.Sprintf(": a failed execution handed back %q", out), det)
						break
					}
					if d := pongo2.VerifTemplateDigest(tpl); d != d0 {
						rep.viol(key+": the compiled template changed (digest of everything reachable from it)", det)
						break
					}
				}
				if rep.Checked%997 == 1 {
					rep.sample(map[string]interface{}{"program": p.Src, "options": opt, "history": hdesc})
				}
			}
		}
	}
	rep.Distinct = rep.Checked
	rep.emit()
}

// ---------------------------------------------------------------- C05 forced schedules

type schedGate struct {
	mu      sync.Mutex
	byGid   map[int]int // goroutine -> thread index
	arrive  chan int    // thread index announces it is at a gate
	release []chan struct{}
}

func cmdC05Forced(args []string) {
	rep := newReport("c05-forced")
	if len(args) < 2 {
		fatal("usage: c05-forced <programs.ndjson> <schedulesPerProgram>")
	}
	progs := append(loadPrograms(args[0]), extraPrograms()...)
	per, _ := strconv.Atoi(args[1])
	seed, _ := strconv.Atoi(os.Getenv("VERIF_SEED"))
	var scheds [][]int
	readVectors(func(raw json.RawMessage) {
		var v struct {
			Sched []int `json:"sched"`
		}
		if err := json.Unmarshal(raw, &v); err != nil {
			fatal("bad vector", err)
		}
		rep.Vectors++
		scheds = append(scheds, v.Sched)
	})
	if len(scheds) == 0 {
		fatal("no schedules")
	}
	stuck := 0
	for pi, p := range progs {
		set := pongo2.NewSet("c05", newMemLoader("c05", p.Files))
		tpl, o := compileString(set, p.Src)
		if o.class() != "ok" {
			continue
		}
		ctxs := []pongo2.Context{variantCtx(p.Ctx["c1"], "c1"), variantCtx(p.Ctx["c1"], "c2")}
		solo := []outcome{execute(tpl, ctxs[0]), execute(tpl, ctxs[1])}
		if solo[0].Panic != "" || solo[1].Panic != "" {
			continue
		}
		d0 := pongo2.VerifTemplateDigest(tpl)
		for si := 0; si < per; si++ {
			sched := scheds[(pi*31+si*7919+seed*104729)%len(scheds)]
			rep.Checked++
			g := &schedGate{byGid: map[int]int{}, arrive: make(chan int, 4), release: []chan struct{}{make(chan struct{}), make(chan struct{})}}
			pongo2.VerifGate = func(ctx *pongo2.ExecutionContext, kind string, idx int) {
				if kind != "doc" && kind != "wrap" {
					return
				}
				g.mu.Lock()
				th, ok := g.byGid[goid()]
				g.mu.Unlock()
				if !ok {
					return
				}
				g.arrive <- th
				<-g.release[th]
			}
			results := make([]outcome, 2)
			done := make(chan int, 2)
			for th := 0; th < 2; th++ {
				th := th
				started := make(chan struct{})
				go func() {
					g.mu.Lock()
					g.byGid[goid()] = th
					g.mu.Unlock()
					close(started)
					results[th] = execute(tpl, ctxs[th])
					g.mu.Lock()
					delete(g.byGid, goid())
					g.mu.Unlock()
					done <- th
				}()
				<-started
			}
			// each thread is either parked at a gate or finished; the schedule says who moves next
			atGate := [2]bool{}
			finished := [2]bool{}
			waitAny := func() bool {
				select {
				case th := <-g.arrive:
					atGate[th] = true
				case th := <-done:
					finished[th] = true
				case <-time.After(10 * time.Second):
					return false
				}
				return true
			}
			ok := true
			settle := func() { // wait until both threads are parked or finished
				for ok && !((atGate[0] || finished[0]) && (atGate[1] || finished[1])) {
					ok = waitAny()
				}
			}
			settle()
			digestChanged := false
			for _, th := range sched {
				if !ok {
					break
				}
				if finished[th] || !atGate[th] {
					continue
				}
				atGate[th] = false
				g.release[th] <- struct{}{}
				settle()
				if pongo2.VerifTemplateDigest(tpl) != d0 {
					digestChanged = true
				}
			}
			// let the rest run to completion, thread 0 first
			for ok && !(finished[0] && finished[1]) {
				for th := 0; th < 2 && ok; th++ {
					if atGate[th] {
						atGate[th] = false
						g.release[th] <- struct{}{}
						settle()
					}
				}
			}
			pongo2.VerifGate = nil
			if !ok {
				stuck++
				continue
			}
			key := fmt.Sprintf("forced schedule: program %s %q, schedule %v", p.Name, p.Src, sched)
			det := map[string]interface{}{"cmd": "c05-forced", "program": p.Src, "files": p.Files, "schedule": sched}
			for th := 0; th < 2; th++ {
				if results[th] != solo[th] {
					rep.viol(key+fmt.Sprintf(": thread %d returned %q / %q, alone it returns %q / %q", th, results[th].Out, firstLine(results[th].Err+results[th].Panic), solo[th].Out, firstLine(solo[th].Err)), det)
				}
			}
			if digestChanged || pongo2.VerifTemplateDigest(tpl) != d0 {
				rep.viol(key+": the compiled template changed during the executions", det)
			}
			if rep.Checked%499 == 1 {
				rep.sample(map[string]interface{}{"program": p.Src, "schedule": sched})
			}
		}
	}
	rep.Extra["stuck"] = stuck
	rep.Distinct = rep.Checked
	rep.emit()
}

func init() {
	commands["c14-replay"] = cmdC14Replay
	commands["c04-replay"] = cmdC04Replay
	commands["c05-forced"] = cmdC05Forced
}

// cmdC05Free: free-running goroutines (no gates: gate channels would add happens-before edges and hide races from the
// detector) execute shared compiled templates and compile/fetch from a shared set. Built with -race by the driver.
func cmdC05Free(args []string) {
	rep := newReport("c05-free")
	if len(args) < 3 {
		fatal("usage: c05-free <programs.ndjson> <goroutines> <maxPrograms>")
	}
	progs := append(extraPrograms(), loadPrograms(args[0])...)
	// constructs whose output is random by design: what they return is not compared, but they run under the race detector
	// and must neither panic nor fail
	nondet := map[string]bool{}
	for name, src := range map[string]string{
		"nondet:lorem":  "{% lorem 3 w random %}|{% lorem 2 p random %}|{% lorem 1 b random %}{% for i in l3 %}{% lorem 2 w random %}{% endfor %}",
		"nondet:random": "{% for i in l3 %}{{ l3|random }}{{ \"abc\"|random }}{% endfor %}",
	} {
		c := routeContext()
		c["l3"] = []interface{}{1, 2, 2}
		progs = append([]progCase{{Name: name, Src: src, Ctx: map[string]pongo2.Context{"c1": c}}}, progs...)
		nondet[name] = true
	}
	k, _ := strconv.Atoi(args[1])
	maxp, _ := strconv.Atoi(args[2])
	seed, _ := strconv.Atoi(os.Getenv("VERIF_SEED"))
	if len(progs) > maxp {
		// keep all registry-driven programs, sample the rest
		var keep []progCase
		for i, p := range progs {
			if strings.HasPrefix(p.Name, "tag:") || strings.HasPrefix(p.Name, "filter:") || strings.HasPrefix(p.Name, "nondet:") || strings.HasPrefix(p.Name, "midfail:") || strings.HasPrefix(p.Name, "errpath:") || strings.HasPrefix(p.Name, "types:") || p.Name == "extends" || p.Name == "trim" || (i*7919+seed)%(len(progs)/maxp+1) == 0 {
				keep = append(keep, p)
			}
		}
		progs = keep
	}
	// the engine's own loaders, cold: a set over a LocalFilesystemLoader (without and with a base directory) whose very first
	// fetches - FromCache, FromFile, a computed include from a string template - all happen at once, by relative name
	if dir, err := os.MkdirTemp("", "pvh_c05_"); err == nil {
		defer os.RemoveAll(dir)
		os.WriteFile(dir+"/cold_a.tpl", []byte("A{{ sv }}"), 0o644)
		os.WriteFile(dir+"/cold_b.tpl", []byte("B{% include \"cold_a.tpl\" %}"), 0o644)
		if cwd, err := os.Getwd(); err == nil && os.Chdir(dir) == nil {
			for round := 0; round < 12; round++ {
				base := ""
				if round%3 == 2 {
					base = dir
				}
				loader, lerr := pongo2.NewLocalFileSystemLoader(base)
				if lerr != nil {
					break
				}
				set := pongo2.NewSet("cold", loader)
				lazyT, _ := set.FromString("{% include lazyname %}")
				var wg sync.WaitGroup
				var mu sync.Mutex
				outs := map[string]int{}
				for g := 0; g < k; g++ {
					wg.Add(1)
					go func(g int) {
						defer wg.Done()
						var o outcome
						switch g % 3 {
						case 0:
							o = protect(func() (string, error) {
								t, e := set.FromCache("cold_a.tpl")
								if e != nil {
									return "", e
								}
								return t.Execute(pongo2.Context{"sv": "s"})
							})
						case 1:
							o = protect(func() (string, error) {
								t, e := set.FromFile("cold_b.tpl")
								if e != nil {
									return "", e
								}
								return t.Execute(pongo2.Context{"sv": "s"})
							})
						default:
							o = execute(lazyT, pongo2.Context{"lazyname": "cold_a.tpl", "sv": "s"})
						}
						mu.Lock()
						outs[fmt.Sprintf("%d:%s|%s|%s", g%3, o.Out, firstLine(o.Err), firstLine(o.Panic))]++
						mu.Unlock()
					}(g)
				}
				wg.Wait()
				rep.Checked++
				for key := range outs {
					if key != "0:As||" && key != "1:BAs||" && key != "2:As||" {
						rep.viol("concurrent first fetches through a LocalFilesystemLoader (base "+strconv.Quote(base)+"): a call returned "+key, map[string]interface{}{"cmd": "c05-free"})
					}
				}
			}
			os.Chdir(cwd)
		}
	}
	// one compiled template whose include tag computes its name: many executions at once, each with a name of its own (in a
	// loop body the same tag serves several names within one execution); every execution renders the templates it named
	{
		files := map[string]string{"/n0": "zero{{ sv }}", "/n1": "one{{ sv }}{% include \"/n0\" %}", "/n2": "two{% for i in sv %}{{ i }}{% endfor %}"}
		set := pongo2.NewSet("c05n", newMemLoader("c05n", files))
		srcs := []string{"<{% include nm %}|{% include nm %}>", "<{% for nm in nms %}{% include nm %};{% endfor %}{% include nm if_exists %}>"}
		for _, src := range srcs {
			tpl, o := compileString(set, src)
			if o.class() != "ok" {
				fatal("lazy names program does not compile", o.Err)
			}
			mk := func(g int) pongo2.Context {
				n := []string{"/n0", "/n1", "/n2"}
				return pongo2.Context{"nm": n[g%3], "nms": []interface{}{n[(g+1)%3], n[g%3], n[(g+2)%3]}, "sv": "s" + strconv.Itoa(g%3)}
			}
			var wg sync.WaitGroup
			var mu sync.Mutex
			got := map[int]map[string]int{}
			for g := 0; g < k; g++ {
				wg.Add(1)
				go func(g int) {
					defer wg.Done()
					mine := map[string]int{}
					for it := 0; it < 400; it++ {
						o := execute(tpl, mk(g))
						mine[o.Out+"|"+firstLine(o.Err+o.Panic)]++
					}
					mu.Lock()
					for res, n := range mine {
						if got[g%3] == nil {
							got[g%3] = map[string]int{}
						}
						got[g%3][res] += n
					}
					mu.Unlock()
				}(g)
			}
			wg.Wait()
			rep.Checked++
			for g := 0; g < 3; g++ {
				alone := execute(tpl, mk(g))
				want := alone.Out + "|" + firstLine(alone.Err+alone.Panic)
				for res, n := range got[g] {
					if res != want {
						rep.viol(fmt.Sprintf("concurrent execution: program lazy-names %q with %d goroutines naming different templates: %d executions with name %v returned %q, alone it returns %q",
							src, k, n, mk(g)["nm"], res, want), map[string]interface{}{"cmd": "c05-free", "program": src})
					}
				}
			}
		}
	}
	for _, p := range progs {
		files := map[string]string{"/lazy": "L{{ sv }}{% cycle 1 2 %}", "/main": p.Src}
		for n, c := range p.Files {
			files[n] = c
		}
		set := pongo2.NewSet("c05", newMemLoader("c05", files))
		set.Options.TrimBlocks = true
		tpl, o := compileString(set, p.Src)
		if o.class() != "ok" {
			continue
		}
		lazy, _ := compileString(set, "{% include lazyname %}{% include lazyname %}")
		ctxs := []pongo2.Context{variantCtx(p.Ctx["c1"], "c1"), variantCtx(p.Ctx["c1"], "c2")}
		lazyCtx := pongo2.Context{"lazyname": "/lazy", "sv": "s"}
		rep.Checked++
		var wg sync.WaitGroup
		var mu sync.Mutex
		// the concurrent phase comes first (whatever an execution initialises lazily is then initialised by several at once);
		// what each execution returned is compared afterwards with what the same call returns alone
		type conc struct {
			ci   int
			got  outcome
			lazy bool
		}
		var results []conc
		for g := 0; g < k; g++ {
			wg.Add(1)
			go func(g int) {
				defer wg.Done()
				for it := 0; it < 3; it++ {
					ci := (g + it) % 2
					w := &faultWriter{}
					entry := []string{"Execute", "ExecuteWriter", "Unbuffered", "ExecuteBytes"}[(g+it)%4]
					out, err, pan := runEntry(tpl, entry, ctxs[ci], w)
					if entry == "ExecuteWriter" || entry == "Unbuffered" {
						out = w.got.String()
					}
					got := outcome{Out: out, Panic: pan}
					if err != nil {
						got.Err = err.Error()
						if entry == "Unbuffered" {
							got.Out = ""
						}
					}
					mu.Lock()
					results = append(results, conc{ci: ci, got: got})
					mu.Unlock()
					// compile / fetch / lazily include in the same set at the same time
					switch (g + it) % 3 {
					case 0:
						if t2, err := set.FromCache("/main"); err == nil {
							t2.Execute(ctxs[ci])
						}
					case 1:
						lo := execute(lazy, lazyCtx)
						mu.Lock()
						results = append(results, conc{got: lo, lazy: true})
						mu.Unlock()
					case 2:
						set.FromString(p.Src)
					}
				}
			}(g)
		}
		wg.Wait()
		solo := []outcome{execute(tpl, ctxs[0]), execute(tpl, ctxs[1])}
		lazySolo := execute(lazy, lazyCtx)
		for _, r := range results {
			if r.lazy {
				if r.got != lazySolo {
					rep.viol(fmt.Sprintf("concurrent lazy include returned %q / %q, alone %q", r.got.Out, firstLine(r.got.Err+r.got.Panic), lazySolo.Out), map[string]interface{}{"cmd": "c05-free"})
				}
				continue
			}
			got, want := r.got, solo[r.ci]
			if got.Panic != "" || firstLine(got.Err) != firstLine(want.Err) || (got.Err == "" && got.Out != want.Out && !nondet[p.Name]) {
				rep.viol(fmt.Sprintf("concurrent execution: program %s %q with %d goroutines: one execution returned %q / %q, alone it returns %q / %q",
					p.Name, p.Src, k, got.Out, firstLine(got.Err+got.Panic), want.Out, firstLine(want.Err)), map[string]interface{}{"cmd": "c05-free", "program": p.Src})
			}
		}
		if rep.Checked%50 == 1 {
			rep.sample(map[string]interface{}{"program": p.Src, "goroutines": k})
		}
	}
	rep.Distinct = rep.Checked
	rep.emit()
}

func init() { commands["c05-free"] = cmdC05Free }
