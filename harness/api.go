package main

// C01 totality: grammar-generated programs (PongoApi.tla, simulation mode) x the value universe run in an isolated
// worker process under a per-program deadline; the worker logs API outcomes, the parent adds Panic / Died / Hang.
// The log is validated by Trace_PongoApi.tla (which has no action for those three).

import (
	"bufio"
	"encoding/json"
	"fmt"
	"math"
	"os"
	"os/exec"
	"sort"
	"strconv"
	"strings"
	"time"

	"github.com/flosch/pongo2/v6"
)

type tStringer struct{ a, b int }

func (t tStringer) String() string { return fmt.Sprintf("<%d&%d>", t.a, t.b) }

type keyT struct{ A int }

func universe() []pongo2.Context {
	a := resolveCatalogue()
	a["x"] = "s<&>"
	a["l"] = []int{3, 1, 2}
	a["m"] = map[string]interface{}{"k": "v", "F": 1}
	type namedKey string
	a["nkm"] = map[namedKey]int{"k": 1, "abc": 2}
	a["mon"] = map[time.Month]string{time.May: "may"}
	a["i8s"] = []int8{1, 2}
	a["strs"] = []string{"b", "a"}
	a["tm"] = time.Date(2021, 2, 3, 4, 5, 6, 0, time.UTC)
	a["frac"] = 0.5 // numbers strictly between -1 and 1: nonzero, but zero as integers
	a["nfrac"] = float32(-0.25)
	a["html"] = "<p class=\"c\">one <b>two</b> &amp; <br/> three</p><!-- c --> four"
	a["selfname"] = "/lazyself" // names of templates that include each other by computed name
	a["laname"] = "/la"
	var nilIface interface{}
	var nilMap map[string]int
	var nilSlice []string
	deep := []interface{}{1}
	for i := 0; i < 50; i++ {
		deep = []interface{}{deep, "d"}
	}
	b := pongo2.Context{}
	for k, v := range a {
		b[k] = v
	}
	// the same names with hostile values
	b["x"] = "\xff\xfe<\x00\x01"
	// markup with bytes that are not UTF-8 in every position a tag scanner distinguishes: text, opening tag, closing tag, entity, unterminated
	b["html"] = "<b\xff>t\xfe</\xffb> <i>x</i\x80> </\xc3> &\xff; <\xe4\xbd> </b\xf0\x9f <"
	b["frac"] = math.SmallestNonzeroFloat64
	b["nfrac"] = "0.5"
	b["selfname"] = "/la"
	b["laname"] = "/lazyself"
	b["l"] = [3]float64{math.NaN(), math.Inf(1), math.Inf(-1)}
	b["m"] = map[keyT]int{{1}: 1}
	b["rint"] = int64(math.MinInt64)
	b["rstr"] = strings.Repeat("é", 3000)
	b["rbool"] = uint64(math.MaxUint64)
	b["rlist"] = deep
	b["rarr"] = [0]int{}
	b["rmapi"] = map[float64]string{1.5: "x"}
	b["rmap"] = nilMap
	b["rstruct"] = tStringer{1, 2}
	b["rptr"] = &tStringer{3, 4}
	b["fsum"] = nilIface
	b["fcat"] = nilSlice
	b["fanyv"] = time.Date(2020, 1, 2, 3, 4, 5, 6, time.UTC)
	b["fctx"] = float32(1.5)
	b["fnil"] = uint8(200)
	b["fm1"] = []byte("bytes")
	b["fme"] = int8(-128)
	return []pongo2.Context{a, b, nil}
}

func tokensToSource(toks []string) string {
	var sb strings.Builder
	for _, t := range toks {
		switch t {
		case "UTF8":
			sb.WriteString("é你")
		case "BYTE01":
			sb.WriteString("\x01")
		case "BADUTF8":
			sb.WriteString("\xff\xfe")
		default:
			sb.WriteString(t)
		}
	}
	return sb.String()
}

var apiFiles = map[string]string{
	"/inc":  "I{{ a }}{% set q=1 %}",
	"/base": "B{% block b %}bb{% endblock %}{% block c %}{% block b2 %}{% endblock %}{% endblock %}",
	"/lib":  "{% macro lm(a, b=2) export %}<{{ a }}{{ b }}>{% endmacro %}",
	"/self": `S{% include "/self" %}`,
	// templates that call back a macro of whoever includes them (family "recursion")
	"/callback":    `{{ cb(1) }}`,
	"/callback2":   `{{ a(1) }}`,
	"/callbackinc": `{% include "/callback" %}`,
	"/cblib":       `{% macro cb(n) export %}.{% include "/callback" %}{% endmacro %}`,
	"/cblibssi":    `{% macro cb(n) export %}.{% ssi "/callback" parsed %}{% endmacro %}`,
	"/cbbase":      `{% block b %}{% endblock %}`,
	// templates that refer to each other by computed name: the cycle exists at execution time only
	"/lazyself": `L{% include selfname %}`,
	"/la":       `A{% include lbname|default:"/lb" %}`,
	"/lb":       `B{% include laname %}`,
}

var apiFileNames = func() []string {
	var ns []string
	for n := range apiFiles {
		ns = append(ns, n)
	}
	sort.Strings(ns)
	return ns
}()

func cmdC01Names(args []string) {
	rep := newReport("c01-names")
	var names []string
	for k := range universe()[0] {
		names = append(names, k)
	}
	rep.Extra["names"] = names
	rep.emit()
}

// worker: programs[start:] one by one; progress file = index being run; trace file appended.
func cmdC01Worker(args []string) {
	start, _ := strconv.Atoi(args[0])
	progress, traceFile, progFile := args[1], args[2], args[3]
	data, err := os.ReadFile(progFile)
	if err != nil {
		fatal(err)
	}
	progs := strings.Split(strings.TrimSpace(string(data)), "\n")
	tf, err := os.OpenFile(traceFile, os.O_APPEND|os.O_CREATE|os.O_WRONLY, 0o644)
	if err != nil {
		fatal(err)
	}
	w := bufio.NewWriter(tf)
	ev := func(name string, idx int) {
		fmt.Fprintf(w, "{\"ev\":%q,\"i\":%d}\n", name, idx)
		w.Flush()
	}
	ctxs := universe()
	for i := start; i < len(progs); i++ {
		os.WriteFile(progress, []byte(strconv.Itoa(i)), 0o644)
		var src string
		json.Unmarshal([]byte(progs[i]), &src)
		done := make(chan struct{})
		go func() {
			defer close(done)
			ev("Source", i)
			set := pongo2.NewSet("c01", newMemLoader("c01", apiFiles))
			if i%2 == 1 && (strings.Contains(src, "include") || strings.Contains(src, "extends") || strings.Contains(src, "import") || strings.Contains(src, "ssi")) {
				// the set's earlier history: every other template of the set has already been fetched through the cache
				for _, n := range apiFileNames {
					wo := protect(func() (string, error) { _, e := set.FromCache(n); return "", e })
					switch wo.class() {
					case "panic":
						ev("Panic", i)
						return
					case "err":
						ev("WarmErr", i)
					default:
						ev("WarmOk", i)
					}
				}
			}
			tpl, o := compileString(set, src)
			switch o.class() {
			case "panic":
				ev("Panic", i)
				return
			case "err":
				ev("CompileErr", i)
				// the shortcut entry points must hand the same error back, not panic
				if ro := protect(func() (string, error) { return set.RenderTemplateString(src, nil) }); ro.Panic != "" {
					ev("Panic", i)
				}
				if ro := protect(func() (string, error) { return set.RenderTemplateBytes([]byte(src), nil) }); ro.Panic != "" {
					ev("Panic", i)
				}
				return
			}
			ev("CompileOk", i)
			for _, c := range ctxs {
				eo := execute(tpl, c)
				switch eo.class() {
				case "panic":
					ev("Panic", i)
					return
				case "err":
					ev("ExecErr", i)
				default:
					ev("ExecOk", i)
				}
			}
		}()
		select {
		case <-done:
		case <-time.After(8 * time.Second):
			ev("Hang", i)
			os.Exit(7)
		}
	}
	os.WriteFile(progress, []byte(strconv.Itoa(len(progs))), 0o644)
}

func cmdC01Run(args []string) {
	rep := newReport("c01-run")
	if len(args) < 1 {
		fatal("usage: c01-run <tracefile>   (token vectors on stdin)")
	}
	traceFile := args[0]
	os.Remove(traceFile)
	var srcs []string
	seen := map[string]bool{}
	readVectors(func(raw json.RawMessage) {
		var v struct {
			Toks []string `json:"toks"`
			Src  []int    `json:"src"`
		}
		if err := json.Unmarshal(raw, &v); err != nil {
			fatal("bad vector", err)
		}
		rep.Vectors++
		s := tokensToSource(v.Toks)
		if v.Src != nil {
			s = bytesOf(v.Src)
		}
		if !seen[s] {
			seen[s] = true
			srcs = append(srcs, s)
		}
	})
	dir, _ := os.MkdirTemp("", "pvh_c01_")
	defer os.RemoveAll(dir)
	progFile, progress := dir+"/progs", dir+"/progress"
	f, _ := os.Create(progFile)
	for _, s := range srcs {
		b, _ := json.Marshal(s)
		f.Write(b)
		f.WriteString("\n")
	}
	f.Close()
	start := 0
	for start < len(srcs) {
		cmd := exec.Command(os.Args[0], "c01-worker", strconv.Itoa(start), progress, traceFile, progFile)
		cmd.Env = append(os.Environ(), "PVH_MAXSTACK=134217728")
		var stderr strings.Builder
		cmd.Stderr = &stderr
		werr := cmd.Run()
		pb, _ := os.ReadFile(progress)
		at, _ := strconv.Atoi(strings.TrimSpace(string(pb)))
		if werr == nil && at >= len(srcs) {
			break
		}
		// the worker died or gave up at program `at`
		what := "Died"
		if ee, ok := werr.(*exec.ExitError); ok && ee.ExitCode() == 7 {
			what = "Hang"
		}
		tail := firstLine(stderr.String())
		if strings.Contains(stderr.String(), "stack overflow") || strings.Contains(stderr.String(), "stack exceeds") {
			tail = "stack overflow"
		}
		if what == "Died" {
			tf, _ := os.OpenFile(traceFile, os.O_APPEND|os.O_WRONLY, 0o644)
			fmt.Fprintf(tf, "{\"ev\":\"Died\",\"i\":%d}\n", at)
			tf.Close()
		}
		if at < len(srcs) {
			rep.viol(fmt.Sprintf("totality: template %q: %s (%s)", srcs[at], map[string]string{"Died": "the process died", "Hang": "did not return within 8s"}[what], tail),
				map[string]interface{}{"src": srcs[at], "cmd": "c01-run"})
		}
		start = at + 1
		if rep.NViol >= 6 {
			// enough to report; every further death or hang costs a process start or the full deadline
			rep.Extra["stopped_early_at"] = start
			break
		}
	}
	// panics recovered inside the worker are in the trace: report them by program
	tb, _ := os.ReadFile(traceFile)
	for _, line := range strings.Split(string(tb), "\n") {
		if strings.Contains(line, `"Panic"`) {
			var e struct{ I int }
			json.Unmarshal([]byte(line), &e)
			if e.I < len(srcs) {
				rep.viol(fmt.Sprintf("totality: template %q: panic", srcs[e.I]), map[string]interface{}{"src": srcs[e.I], "cmd": "c01-run"})
			}
		}
	}
	rep.Checked = len(srcs)
	rep.Distinct = len(srcs)
	for i := 0; i < len(srcs) && i < 4; i++ {
		rep.sample(srcs[len(srcs)*i/4])
	}
	rep.TraceFile = traceFile
	rep.emit()
}

func init() {
	commands["c01-names"] = cmdC01Names
	commands["c01-worker"] = cmdC01Worker
	commands["c01-run"] = cmdC01Run
}

// ---------------------------------------------------------------- C16: positions of parser / execution errors

func offsetOf(src string, line, col int) int {
	off := 0
	for l := 1; l < line; l++ {
		i := strings.IndexByte(src[off:], '\n')
		if i < 0 {
			return -1
		}
		off += i + 1
	}
	off += col - 1
	if off < 0 || off > len(src) {
		return -1
	}
	return off
}

// checkErrorPosition returns "" if err's position is consistent with src (the text of the template it names).
func checkErrorPosition(err *pongo2.Error, src string, compile bool) string {
	if compile && err.Filename == "" {
		return "a compile error does not name the template"
	}
	if err.Line <= 0 {
		return ""
	}
	off := offsetOf(src, err.Line, err.Column)
	if off < 0 {
		return fmt.Sprintf("position %d:%d is outside the source", err.Line, err.Column)
	}
	if t := err.Token; t != nil && (t.Line != err.Line || t.Col != err.Column) {
		// the message says "Line L Col C near '<token>'": the token it shows must be the one at that position
		return fmt.Sprintf("the error is positioned at %d:%d but reports the token %q of %d:%d", err.Line, err.Column, t.Val, t.Line, t.Col)
	}
	if t := err.Token; t != nil && t.Line == err.Line && t.Col == err.Column {
		rest := src[off:]
		switch t.Typ {
		case pongo2.TokenString:
			if !(strings.HasPrefix(rest, `"`) || strings.HasPrefix(rest, `'`)) {
				return fmt.Sprintf("string token %q reported at %d:%d, where the source has %q", t.Val, err.Line, err.Column, firstN(rest, 12))
			}
		case pongo2.TokenHTML:
			if !strings.HasPrefix(rest, firstN(t.Val, 8)) {
				return fmt.Sprintf("text token reported at %d:%d, where the source has %q", err.Line, err.Column, firstN(rest, 12))
			}
		default:
			if t.TrimWhitespaces && (strings.HasPrefix(rest, "-"+t.Val) || strings.HasPrefix(rest, t.Val+"-")) {
				break // the delimiter's text in the source carries the '-' that its value does not
			}
			if !strings.HasPrefix(rest, t.Val) {
				return fmt.Sprintf("token %q reported at %d:%d, where the source has %q", t.Val, err.Line, err.Column, firstN(rest, 12))
			}
		}
	}
	return ""
}

func fkeyText(k string) string {
	if k == "" {
		return ""
	}
	return " with files " + strconv.Quote(k)
}

func firstN(s string, n int) string {
	if len(s) > n {
		return s[:n]
	}
	return s
}

func asPongoError(e error) *pongo2.Error {
	if pe, ok := e.(*pongo2.Error); ok {
		return pe
	}
	return nil
}

func cmdC16Errors(args []string) {
	rep := newReport("c16-errors")
	seen := map[string]bool{}
	ctxs := universe()
	prefix := "ab\n\ncd"
	nerr := 0
	readVectors(func(raw json.RawMessage) {
		var v struct {
			Toks  []string        `json:"toks"`
			Files json.RawMessage `json:"files"`
		}
		if err := json.Unmarshal(raw, &v); err != nil {
			fatal("bad vector", err)
		}
		rep.Vectors++
		src := tokensToSource(v.Toks)
		// the other templates of the program (an empty TLA+ function prints as [])
		files := map[string]string{}
		for k, t := range apiFiles {
			files[k] = t
		}
		fkey := ""
		if t := strings.TrimSpace(string(v.Files)); strings.HasPrefix(t, "{") {
			var fm map[string][]string
			if err := json.Unmarshal(v.Files, &fm); err != nil {
				fatal("bad files", err)
			}
			for k, toks := range fm {
				files["/"+k] = tokensToSource(toks)
				fkey += k + "=" + files["/"+k] + ";"
			}
		}
		if seen[src+fkey] || strings.Contains(src, "/self") {
			return
		}
		seen[src+fkey] = true
		rep.Checked++
		run := func(s string) (cerr, eerr *pongo2.Error) {
			set := pongo2.NewSet("c16", newMemLoader("c16", files))
			var tpl *pongo2.Template
			o := protect(func() (string, error) {
				var e error
				tpl, e = set.FromString(s)
				if e != nil {
					cerr = asPongoError(e)
				}
				return "", nil
			})
			if o.Panic != "" || tpl == nil {
				return
			}
			protect(func() (string, error) {
				_, e := tpl.Execute(ctxs[0])
				if e != nil {
					eerr = asPongoError(e)
				}
				return "", nil
			})
			return
		}
		cerr, eerr := run(src)
		key := fmt.Sprintf("diagnostics: template %q", src)
		det := map[string]interface{}{"src": src, "vector": raw, "cmd": "c16-errors"}
		for _, pe := range []struct {
			e       *pongo2.Error
			compile bool
		}{{cerr, true}, {eerr, false}} {
			if pe.e == nil {
				continue
			}
			nerr++
			named := src
			if pe.e.Filename != "<string>" {
				// the error belongs to another template of the program (include, extends, import): the position is one in that text
				t, ok := files[pe.e.Filename]
				if !ok {
					if pe.e.Line > 0 {
						rep.viol(key+fmt.Sprintf(": the error carries a position (%d:%d) but names %q, which is none of the program's templates (%s)", pe.e.Line, pe.e.Column, pe.e.Filename, firstLine(pe.e.Error())), det)
					}
					continue
				}
				named = t
			}
			if p := checkErrorPosition(pe.e, named, pe.compile); p != "" {
				rep.viol(key+fkeyText(fkey)+": "+p+" in "+pe.e.Filename+" ("+firstLine(pe.e.Error())+")", det)
			}
		}
		// shift: the same template behind a prefix of 2 lines and 2 columns
		if cerr != nil && cerr.Filename == "<string>" && cerr.Line > 0 {
			c2, _ := run(prefix + src)
			if c2 != nil && c2.Line > 0 && c2.OrigError.Error() == cerr.OrigError.Error() {
				wantL, wantC := cerr.Line+2, cerr.Column
				if cerr.Line == 1 {
					wantC += 2
				}
				if c2.Line != wantL || c2.Column != wantC {
					rep.viol(key+fmt.Sprintf(": error at %d:%d moves to %d:%d behind a prefix of 2 lines and 2 columns (expected %d:%d)", cerr.Line, cerr.Column, c2.Line, c2.Column, wantL, wantC), det)
				}
			}
		}
		if rep.Checked%1999 == 1 && cerr != nil {
			rep.sample(map[string]interface{}{"template": src, "error": firstLine(cerr.Error())})
		}
	})
	rep.Extra["errors_checked"] = nerr
	rep.Distinct = len(seen)
	rep.emit()
}

func init() { commands["c16-errors"] = cmdC16Errors }
