package main

// Replay of PongoRender.tla behaviours: the specification prints (program AST, public context, predicted output
// pieces / error); this file prints the AST as template text, builds the Go context, renders with the real
// engine and compares. Used by C02, C09, C12, C13, C19 (and C04/C05 for the programs they re-execute).

import (
	"encoding/json"
	"fmt"
	"os"
	"os/exec"
	"runtime/debug"
	"sort"
	"strconv"
	"strings"
	"time"

	"github.com/flosch/pongo2/v6"
)

// ---------------------------------------------------------------- abstract values

type AV struct {
	K string   `json:"k"`
	N int      `json:"n"`
	S []string `json:"s"`
	L []AV     `json:"l"`
}

func markerText(i string, rounds int) string {
	s := "<m" + i + "&'\">"
	for r := 0; r < rounds; r++ {
		s = htmlEscape(s)
	}
	return s
}

// htmlEscape is the five-entity escape (part of the trusted base of the harness; independent of the engine's filter).
func htmlEscape(s string) string {
	var b strings.Builder
	for _, c := range s {
		switch c {
		case '&':
			b.WriteString("&amp;")
		case '<':
			b.WriteString("&lt;")
		case '>':
			b.WriteString("&gt;")
		case '"':
			b.WriteString("&quot;")
		case '\'':
			b.WriteString("&#39;")
		default:
			b.WriteRune(c)
		}
	}
	return b.String()
}

var namedAtoms = map[string]string{
	"NL": "\n", "CR": "\r", "TAB": "\t", "EACUTE": "\u00e9", "EURO": "\u20ac", "CJK": "\u4f60", "EMOJI": "\U0001F600",
	"FFFD": "\ufffd", "BAD": "\xff", "EACUTE_UP": "\u00c9",
}

func atomText(a string) string {
	if s, ok := namedAtoms[a]; ok {
		return s
	}
	switch {
	case len(a) == 2 && a[0] == 'M':
		return markerText(a[1:], 0)
	case len(a) == 2 && a[0] == 'E':
		return markerText(a[1:], 1)
	case len(a) == 3 && a[:2] == "EE":
		return markerText(a[2:], 2)
	}
	return a
}

func atomsText(as []string) string {
	var b strings.Builder
	for _, a := range as {
		b.WriteString(atomText(a))
	}
	return b.String()
}

// abstractInstant: the two instants of PongoFilters.tla
func abstractInstant(i int) time.Time {
	if i == 1 {
		return time.Date(2006, 1, 2, 15, 4, 5, 0, time.UTC)
	}
	return time.Date(1999, 12, 31, 23, 59, 58, 0, time.UTC)
}

type flipStringer struct {
	text  string
	calls int
}

func (f *flipStringer) String() string {
	f.calls++
	if f.calls%2 == 1 {
		return "ok"
	}
	return f.text
}

type safeString string // a value Go code marked safe (AsSafeValue)

// concretise builds the Go value of an abstract value (for contexts and for ApplyFilter arguments).
func concretise(v AV) interface{} {
	switch v.K {
	case "nil":
		return nil
	case "bool":
		return v.N == 1
	case "int":
		return v.N
	case "str":
		return atomsText(v.S)
	case "list":
		out := make([]interface{}, 0, len(v.L))
		for _, x := range v.L {
			out = append(out, concretise(x))
		}
		return out
	case "map":
		allInt := len(v.L) > 0
		for _, p := range v.L {
			if p.L[0].K != "int" {
				allInt = false
			}
		}
		if allInt {
			m := map[int]interface{}{}
			for _, p := range v.L {
				m[p.L[0].N] = concretise(p.L[1])
			}
			return m
		}
		m := map[string]interface{}{}
		for _, p := range v.L {
			m[fmt.Sprint(concretise(p.L[0]))] = concretise(p.L[1])
		}
		return m
	case "markup":
		return pongo2.AsSafeValue(piecesText(v.L))
	case "struct":
		st := vStruct{}
		for _, p := range v.L {
			switch atomsText(p.L[0].S) {
			case "F":
				st.F = concretise(p.L[1])
			case "G":
				st.G = concretise(p.L[1])
			}
		}
		return st
	case "stringer":
		if v.N == 1 {
			// a Stringer whose text differs from call to call: harmless on odd calls, the modelled text on even ones
			return &flipStringer{text: atomsText(v.S)}
		}
		return vStringer{atomsText(v.S)}
	case "fix":
		return float64(v.N) / 1000
	case "time":
		return abstractInstant(v.N)
	case "ap":
		r, err := pongo2.ApplyFilter(v.S[0], toValue(concretise(v.L[0])), toValue(concretise(v.L[1])))
		if err != nil {
			panic(apError{err})
		}
		return r
	}
	panic("concretise: unknown kind " + v.K)
}

type apError struct{ err *pongo2.Error }

// written renders what writing value v with `esc` rounds of escaping produces.
func written(v AV, esc int) string {
	var s string
	isStr := false
	switch v.K {
	case "nil":
		s = ""
	case "bool":
		if v.N == 1 {
			s = "True"
		} else {
			s = "False"
		}
	case "int":
		s = strconv.Itoa(v.N)
	case "fix":
		s = strconv.FormatFloat(float64(v.N)/1000, 'f', 6, 64)
	case "str", "stringer":
		s = atomsText(v.S)
		isStr = true
	case "markup":
		s = piecesText(v.L)
		isStr = true
	case "ap":
		val := concretise(v).(*pongo2.Value)
		s = val.String()
		_, isStringer := val.Interface().(fmt.Stringer)
		isStr = val.IsString() || isStringer // (a filter that hands its input back hands back the Stringer)
	case "list", "map":
		// composite values have no canonical printed form in the specification; their Go rendering is taken as is
		s = pongo2.AsValue(concretise(v)).String()
	default:
		panic("written: unknown kind " + v.K)
	}
	if isStr {
		for i := 0; i < esc; i++ {
			s = htmlEscape(s)
		}
	}
	return s
}

func piecesText(ps []AV) string {
	var b strings.Builder
	for _, p := range ps {
		switch p.K {
		case "str":
			b.WriteString(atomsText(p.S))
		case "w":
			b.WriteString(written(p.L[0], p.N))
		default:
			panic("piece kind " + p.K)
		}
	}
	return b.String()
}

// ---------------------------------------------------------------- AST printer

type J = map[string]interface{}

func jstr(v interface{}) string { s, _ := v.(string); return s }
func jbool(v interface{}) bool  { b, _ := v.(bool); return b }
func jlist(v interface{}) []interface{} {
	l, _ := v.([]interface{})
	return l
}
func jatoms(v interface{}) []string {
	var out []string
	for _, a := range jlist(v) {
		out = append(out, jstr(a))
	}
	return out
}

func toAV(v interface{}) AV {
	b, _ := json.Marshal(v)
	var av AV
	if err := json.Unmarshal(b, &av); err != nil {
		panic(err)
	}
	return av
}

func printLit(v AV) string {
	switch v.K {
	case "int":
		if v.N < 0 {
			return "(0 - " + strconv.Itoa(-v.N) + ")"
		}
		return strconv.Itoa(v.N)
	case "bool":
		if v.N == 1 {
			return "true"
		}
		return "false"
	case "str":
		return `"` + strings.ReplaceAll(strings.ReplaceAll(atomsText(v.S), `\`, `\\`), `"`, `\"`) + `"`
	case "nil":
		return "undefined_name_q"
	}
	panic("printLit " + v.K)
}

func printExpr(e interface{}) string {
	m := e.(J)
	switch jstr(m["t"]) {
	case "lit":
		return printLit(toAV(m["v"]))
	case "var":
		return strings.Join(jatoms(m["path"]), ".")
	case "sub":
		return printExpr(m["e"]) + "[" + printExpr(m["i"]) + "]"
	case "arr":
		var parts []string
		for _, it := range jlist(m["items"]) {
			parts = append(parts, printExpr(it))
		}
		return "[" + strings.Join(parts, ", ") + "]"
	case "filt":
		s := printExpr(m["e"])
		if inner := m["e"].(J); jstr(inner["t"]) == "bin" || jstr(inner["t"]) == "not" {
			s = "(" + s + ")"
		}
		return s + printChain(jlist(m["chain"]))
	case "not":
		return "(not " + printExpr(m["a"]) + ")"
	case "neg":
		return "-" + printExpr(m["a"])
	case "bin":
		return "(" + printExpr(m["a"]) + " " + jstr(m["op"]) + " " + printExpr(m["b"]) + ")"
	case "call":
		var parts []string
		for _, it := range jlist(m["args"]) {
			parts = append(parts, printExpr(it))
		}
		return jstr(m["name"]) + "(" + strings.Join(parts, ", ") + ")"
	}
	panic("printExpr: " + jstr(m["t"]))
}

func printChain(chain []interface{}) string {
	s := ""
	for _, c := range chain {
		cm := c.(J)
		s += "|" + jstr(cm["f"])
		if a, ok := cm["arg"].(J); ok && jstr(a["t"]) != "none" {
			as := printExpr(a)
			s += ":" + as
		}
	}
	return s
}

func printNodes(ns []interface{}) string {
	var b strings.Builder
	for _, n := range ns {
		b.WriteString(printNode(n.(J)))
	}
	return b.String()
}

func printNode(n J) string {
	switch jstr(n["t"]) {
	case "text":
		return atomsText(jatoms(n["s"]))
	case "out":
		return "{{ " + printExpr(n["e"]) + " }}"
	case "if":
		conds := jlist(n["conds"])
		bodies := jlist(n["bodies"])
		var b strings.Builder
		for i, c := range conds {
			if i == 0 {
				b.WriteString("{% if " + printExpr(c) + " %}")
			} else {
				b.WriteString("{% elif " + printExpr(c) + " %}")
			}
			b.WriteString(printNodes(jlist(bodies[i])))
		}
		if len(bodies) > len(conds) {
			b.WriteString("{% else %}" + printNodes(jlist(bodies[len(bodies)-1])))
		}
		b.WriteString("{% endif %}")
		return b.String()
	case "ifequal":
		tag := "ifequal"
		if jbool(n["neg"]) {
			tag = "ifnotequal"
		}
		s := "{% " + tag + " " + printExpr(n["a"]) + " " + printExpr(n["b"]) + " %}" + printNodes(jlist(n["body"]))
		if els := jlist(n["els"]); len(els) > 0 {
			s += "{% else %}" + printNodes(els)
		}
		return s + "{% end" + tag + " %}"
	case "firstof":
		s := "{% firstof"
		for _, a := range jlist(n["args"]) {
			s += " " + printExpr(a)
		}
		return s + " %}"
	case "for":
		s := "{% for " + jstr(n["key"])
		if v := jstr(n["val"]); v != "" {
			s += ", " + v
		}
		s += " in " + printExpr(n["e"])
		if jbool(n["rev"]) {
			s += " reversed"
		}
		if jbool(n["sorted"]) {
			s += " sorted"
		}
		s += " %}" + printNodes(jlist(n["body"]))
		if em := jlist(n["empty"]); len(em) > 0 {
			s += "{% empty %}" + printNodes(em)
		}
		return s + "{% endfor %}"
	case "with":
		s := "{% with"
		for _, p := range jlist(n["pairs"]) {
			pm := p.(J)
			s += " " + jstr(pm["name"]) + "=" + printExpr(pm["e"])
		}
		return s + " %}" + printNodes(jlist(n["body"])) + "{% endwith %}"
	case "set":
		return "{% set " + jstr(n["name"]) + " = " + printExpr(n["e"]) + " %}"
	case "macro":
		var ps []string
		for _, p := range jlist(n["params"]) {
			pm := p.(J)
			s := jstr(pm["name"])
			if d, ok := pm["def"].(J); ok && jstr(d["t"]) != "none" {
				s += "=" + printExpr(d)
			}
			ps = append(ps, s)
		}
		s := "{% macro " + jstr(n["name"]) + "(" + strings.Join(ps, ", ") + ")"
		if jbool(n["export"]) {
			s += " export"
		}
		return s + " %}" + printNodes(jlist(n["body"])) + "{% endmacro %}"
	case "cycle":
		s := "{% cycle"
		for _, a := range jlist(n["args"]) {
			s += " " + printExpr(a)
		}
		if as := jstr(n["as"]); as != "" {
			s += " as " + as
			if jbool(n["silent"]) {
				s += " silent"
			}
		}
		return s + " %}"
	case "ifchanged":
		s := "{% ifchanged"
		for _, a := range jlist(n["args"]) {
			s += " " + printExpr(a)
		}
		s += " %}" + printNodes(jlist(n["body"]))
		if els := jlist(n["els"]); len(els) > 0 {
			s += "{% else %}" + printNodes(els)
		}
		return s + "{% endifchanged %}"
	case "autoescape":
		mode := "off"
		if jbool(n["on"]) {
			mode = "on"
		}
		return "{% autoescape " + mode + " %}" + printNodes(jlist(n["body"])) + "{% endautoescape %}"
	case "filter":
		return "{% filter " + strings.TrimPrefix(printChain(jlist(n["chain"])), "|") + " %}" + printNodes(jlist(n["body"])) + "{% endfilter %}"
	case "spaceless":
		return "{% spaceless %}" + printNodes(jlist(n["body"])) + "{% endspaceless %}"
	case "templatetag":
		return "{% templatetag " + jstr(n["name"]) + " %}"
	case "comment":
		return "{% comment %}" + printNodes(jlist(n["body"])) + "{% endcomment %}"
	case "widthratio":
		s := "{% widthratio " + printExpr(n["a"]) + " " + printExpr(n["m"]) + " " + printExpr(n["w"])
		if as := jstr(n["as"]); as != "" {
			s += " as " + as
		}
		return s + " %}"
	case "include":
		s := `{% include "` + jstr(n["name"]) + `"`
		if ps := jlist(n["pairs"]); len(ps) > 0 {
			s += " with"
			for _, p := range ps {
				pm := p.(J)
				s += " " + jstr(pm["name"]) + "=" + printExpr(pm["e"])
			}
		}
		if jbool(n["only"]) {
			s += " only"
		}
		return s + " %}"
	case "import":
		s := `{% import "` + jstr(n["file"]) + `" ` + jstr(n["name"])
		if as := jstr(n["as"]); as != "" && as != jstr(n["name"]) {
			s += " as " + as
		}
		return s + " %}"
	case "block":
		return "{% block " + jstr(n["name"]) + " %}" + printNodes(jlist(n["body"])) + "{% endblock %}"
	}
	panic("printNode: " + jstr(n["t"]))
}

// ---------------------------------------------------------------- replay

type renderVector struct {
	M       string          `json:"m"`
	Prog    []interface{}   `json:"prog"`
	Ctx     AVMap           `json:"ctx"`
	Files   FileMap         `json:"files"`
	Out     []AV            `json:"out"`
	Err     string          `json:"err"`
	Tags    []string        `json:"tags"`
	Evs     [][]interface{} `json:"evs"`
	Globals AVMap           `json:"globals"`
	// a second execution of the same compiled template with another context, after the first (which may have failed)
	Ctx2 AVMap  `json:"ctx2"`
	Out2 []AV   `json:"out2"`
	Err2 string `json:"err2"`
}

func buildContext(c AVMap) pongo2.Context {
	ctx := pongo2.Context{}
	for k, v := range c {
		ctx[k] = concretise(v)
		// names starting with "ps": the same string behind a pointer (*string)
		if str, ok := ctx[k].(string); ok && strings.HasPrefix(k, "ps") {
			primePointerTypes()
			p := new(string)
			*p = str
			ctx[k] = p
		}
		// names starting with "ty": the same sequence as a Go slice with an element type of its own ([]int, []string)
		if l, ok := ctx[k].([]interface{}); ok && strings.HasPrefix(k, "ty") && len(l) > 0 {
			switch l[0].(type) {
			case int:
				t := make([]int, len(l))
				for i := range l {
					t[i] = l[i].(int)
				}
				ctx[k] = t
			case string:
				t := make([]string, len(l))
				for i := range l {
					t[i] = l[i].(string)
				}
				ctx[k] = t
			}
		}
	}
	return ctx
}

var pointerTypesPrimed bool

// primePointerTypes prints a nil *string once per process, before any non-nil one is printed.
func primePointerTypes() {
	if pointerTypesPrimed {
		return
	}
	pointerTypesPrimed = true
	var np *string
	set := pongo2.NewSet("prime", newMemLoader("prime", nil))
	render(set, "{{ np }}{% for r in rows %}{{ r }}{% endfor %}{% firstof np %}", pongo2.Context{"np": np, "rows": []*string{nil, nil}})
}

func snapshotCtx(ctx pongo2.Context) string {
	keys := make([]string, 0, len(ctx))
	for k := range ctx {
		keys = append(keys, k)
	}
	sort.Strings(keys)
	var b strings.Builder
	for _, k := range keys {
		fmt.Fprintf(&b, "%s=%#v;", k, ctx[k])
	}
	return b.String()
}

// renderVec renders one vector and returns the violation text ("" if it conforms).
func renderVec(v *renderVector) (src string, got outcome, want string, wantErr bool, problem string) {
	defer func() {
		if r := recover(); r != nil {
			if ae, ok := r.(apError); ok {
				// the public ApplyFilter rejects this input: the template must fail as well (C19: same result as ApplyFilter)
				wantErr = true
				problem = ""
				if got.Panic != "" {
					problem = "panic: " + firstLine(got.Panic)
				} else if got.Err == "" {
					problem = fmt.Sprintf("rendered %q, but ApplyFilter on the same values fails: %v", got.Out, ae.err)
				}
				return
			}
			panic(r)
		}
	}()
	src = printNodes(v.Prog)
	files := map[string]string{}
	for name, nodes := range v.Files {
		if !strings.HasPrefix(name, "/") {
			name = "/" + name
		}
		files[name] = printNodes(nodes)
	}
	set := pongo2.NewSet("render", newMemLoader("render", files))
	ctx := buildContext(v.Ctx)
	for k, gv := range v.Globals {
		set.Globals[k] = concretise(gv)
	}
	gbefore := snapshotCtx(set.Globals)
	before := snapshotCtx(ctx)
	renderLog.take()
	renderLog.install()
	var tpl *pongo2.Template
	tpl, got = compileString(set, src)
	if got.class() == "ok" {
		got = execute(tpl, ctx)
	} else {
		got.Err = "compile: " + got.Err
		tpl = nil
	}
	uninstallTracer()
	recs := renderLog.take()
	// the same compiled template executed once more gives the same again (the specification's rendering is a function of
	// program and context): checked after everything else agrees
	defer func() {
		if problem != "" || tpl == nil || got.Panic != "" {
			return
		}
		if again := execute(tpl, ctx); again.Panic != "" || (again.Err == "") != (got.Err == "") || again.Out != got.Out {
			problem = fmt.Sprintf("a second execution of the compiled template rendered %q %s, the first %q %s", again.Out, firstLine(again.Err+again.Panic), got.Out, firstLine(got.Err))
			return
		}
		if v.Ctx2 != nil {
			o2 := execute(tpl, buildContext(v.Ctx2))
			want2 := piecesText(v.Out2)
			if o2.Panic != "" || (o2.Err == "") != (v.Err2 == "") || (v.Err2 == "" && o2.Out != want2) {
				problem = fmt.Sprintf("executed again with another context (after an execution that ended with %q) it rendered %q %s, specification %q %s",
					firstLine(got.Err), o2.Out, firstLine(o2.Err+o2.Panic), want2, v.Err2)
			}
		}
	}()
	if snapshotCtx(ctx) != before {
		problem = "the caller's Context was modified by the execution"
		return
	}
	if snapshotCtx(set.Globals) != gbefore {
		problem = "the set's Globals were modified by the execution"
		return
	}
	wantErr = v.Err != ""
	if got.Panic != "" {
		problem = "panic: " + firstLine(got.Panic)
		return
	}
	if wantErr {
		if got.Err == "" {
			problem = fmt.Sprintf("rendered %q, specification: error (%s)", got.Out, v.Err)
		}
		return
	}
	want = piecesText(v.Out)
	if got.Err != "" {
		problem = fmt.Sprintf("error %s, specification: output %q", firstLine(got.Err), want)
		return
	}
	if got.Out != want {
		problem = fmt.Sprintf("rendered %q, specification %q", got.Out, want)
		return
	}
	if v.Evs != nil {
		// the execution, event by event (one specification step per hook event)
		se := specEvents(v.Evs)
		ee, p := engineEvents(recs)
		if p != "" {
			problem = p
			return
		}
		if strings.Join(se, ";") != strings.Join(ee, ";") {
			i := 0
			for i < len(se) && i < len(ee) && se[i] == ee[i] {
				i++
			}
			g, w := "<end>", "<end>"
			if i < len(ee) {
				g = ee[i]
			}
			if i < len(se) {
				w = se[i]
			}
			problem = fmt.Sprintf("event %d of the execution is %q, specification %q", i, g, w)
		}
	}
	return
}

func cmdRenderReplay(args []string) {
	rep := newReport("render-replay")
	seen := map[string]bool{}
	readVectors(func(raw json.RawMessage) {
		var v renderVector
		if err := json.Unmarshal(raw, &v); err != nil {
			fatal("bad vector", err, string(raw)[:300])
		}
		rep.Vectors++
		src, got, want, _, problem := renderVec(&v)
		rep.Checked++
		if !seen[src] {
			seen[src] = true
		}
		if strings.HasPrefix(problem, "SKIP:") {
			rep.Skipped++
			return
		}
		if problem == "" && v.Globals != nil && v.Err != "" {
			// (the rules about the caller's context - keys that are no identifiers, keys that clash with an exported macro -
			// hold for the template that is executed, also when it extends another one)
			files := map[string]string{"/apibase": "base{% block zzb %}{% endblock %}"}
			set := pongo2.NewSet("api", newMemLoader("api", files))
			for k, gv := range v.Globals {
				set.Globals[k] = concretise(gv)
			}
			if o := render(set, `{% extends "/apibase" %}`+src, buildContext(v.Ctx)); o.class() == "ok" {
				problem = fmt.Sprintf("as a template that extends another one it executes (%q), specification: error (%s)", o.Out, v.Err)
			}
		}
		if problem != "" {
			kind := strings.Join(v.Tags, ",")
			rep.viol(fmt.Sprintf("render[%s%s]: template %q: %s", v.M, kind, src, problem),
				map[string]interface{}{"vector": raw, "src": src, "got": got, "want": want, "cmd": "render-replay", "tags": v.Tags})
		}
		if rep.Checked%1499 == 1 {
			rep.sample(map[string]interface{}{"template": src, "output": want, "err": v.Err})
		}
	})
	rep.Distinct = len(seen)
	rep.emit()
}

func init() {
	commands["render-replay"] = cmdRenderReplay
}

// specEvents renders the specification's event list in the harness's canonical text form.
func specEvents(evs [][]interface{}) []string {
	var out []string
	b := func(x interface{}) int {
		if v, ok := x.(bool); ok && v {
			return 1
		}
		return 0
	}
	for _, e := range evs {
		switch jstr(e[0]) {
		// Compared are the events a user of the engine can observe: loop iterations (through forloop), filter applications in
		// order (a registered filter sees them), and every write with the autoescape mode in force. How many child scopes the
		// engine opens (Push), its macro depth bookkeeping (MacroIn/MacroOut) and the internal safe mark of a written value
		// are implementation structure: an engine that renders the same with other bookkeeping is not at fault.
		case "Iter":
			out = append(out, fmt.Sprintf("Iter %v/%v", e[1], e[2]))
		case "Filter":
			out = append(out, "Filter "+jstr(e[1]))
		case "Write":
			out = append(out, fmt.Sprintf("Write auto=%d", b(e[1])))
		}
	}
	return out
}

// engineEvents renders the hook events of one execution in the same form; it also checks the per-iteration
// loop record against its declarative definition.
func engineEvents(recs []evRec) (out []string, problem string) {
	for _, e := range recs {
		switch e.Ev {
		case "Iter":
			out = append(out, fmt.Sprintf("Iter %d/%d", e.A, e.B))
			if (e.C == 1) != (e.A == 0) || (e.D == 1) != (e.A == e.B-1) {
				problem = fmt.Sprintf("forloop record at iteration %d of %d: First=%d Last=%d", e.A, e.B, e.C, e.D)
			}
		case "Filter":
			out = append(out, "Filter "+e.S)
		case "Write":
			out = append(out, fmt.Sprintf("Write auto=%d", e.A))
		}
	}
	return
}

var renderLog = &evLog{noGid: true}

// AVMap is a TLA+ function with string domain; the empty function is printed by TLC as an empty tuple ([]).
type AVMap map[string]AV

func (m *AVMap) UnmarshalJSON(b []byte) error {
	t := strings.TrimSpace(string(b))
	if strings.HasPrefix(t, "[") {
		*m = AVMap{}
		return nil
	}
	var x map[string]AV
	if err := json.Unmarshal(b, &x); err != nil {
		return err
	}
	*m = x
	return nil
}

// FileMap: template name -> nodes; the empty function arrives as [].
type FileMap map[string][]interface{}

func (m *FileMap) UnmarshalJSON(b []byte) error {
	t := strings.TrimSpace(string(b))
	if strings.HasPrefix(t, "[") {
		*m = FileMap{}
		return nil
	}
	var x map[string][]interface{}
	if err := json.Unmarshal(b, &x); err != nil {
		return err
	}
	*m = x
	return nil
}

// cmdRenderIsolated runs every vector in a child process of its own (programs that may take the process down:
// unbounded recursion, C01's hostile inputs). A child that dies or hangs is a violation attributed to its vector.
func cmdRenderIsolated(args []string) {
	rep := newReport("render-isolated")
	sub := "render-replay"
	if len(args) > 0 {
		sub = args[0]
	}
	readVectors(func(raw json.RawMessage) {
		rep.Vectors++
		rep.Checked++
		cmd := exec.Command(os.Args[0], sub)
		cmd.Env = append(os.Environ(), "PVH_MAXSTACK=67108864")
		cmd.Stdin = strings.NewReader(string(raw) + "\n")
		var stdout, stderr strings.Builder
		cmd.Stdout = &stdout
		cmd.Stderr = &stderr
		if err := cmd.Start(); err != nil {
			fatal("spawn", err)
		}
		done := make(chan error, 1)
		go func() { done <- cmd.Wait() }()
		var werr error
		hung := false
		select {
		case werr = <-done:
		case <-time.After(30 * time.Second):
			cmd.Process.Kill()
			<-done
			hung = true
		}
		var v renderVector
		json.Unmarshal(raw, &v)
		src := ""
		func() {
			defer func() { recover() }()
			src = printNodes(v.Prog)
		}()
		if src == "" {
			src = firstLine(string(raw))
		}
		if hung {
			rep.viol(fmt.Sprintf("render[%s]: template %q: did not finish within 30s", v.M, src), map[string]interface{}{"vector": raw, "cmd": "render-isolated"})
			return
		}
		if werr != nil {
			tail := stderr.String()
			what := "process died"
			if strings.Contains(tail, "stack overflow") || strings.Contains(tail, "goroutine stack exceeds") {
				what = "process died: stack overflow"
			}
			rep.viol(fmt.Sprintf("render[%s]: template %q: %s", v.M, src, what),
				map[string]interface{}{"vector": raw, "cmd": "render-isolated", "stderr": firstLine(tail)})
			return
		}
		lines := strings.Split(strings.TrimSpace(stdout.String()), "\n")
		var child Report
		if err := json.Unmarshal([]byte(lines[len(lines)-1]), &child); err != nil {
			fatal("child report", err)
		}
		for _, cv := range child.Violations {
			rep.viol(cv.Key, cv.Detail)
		}
		rep.Skipped += child.Skipped
	})
	rep.Distinct = rep.Checked
	rep.emit()
}

func init() {
	commands["render-isolated"] = cmdRenderIsolated
	if s := os.Getenv("PVH_MAXSTACK"); s != "" {
		if n, err := strconv.Atoi(s); err == nil {
			debug.SetMaxStack(n)
		}
	}
}

func cmdRegistry(args []string) {
	rep := newReport("registry")
	rep.Extra["tags"] = pongo2.VerifRegisteredTags()
	rep.Extra["filters"] = pongo2.VerifRegisteredFilters()
	rep.emit()
}

func init() { commands["registry"] = cmdRegistry }

// Go values for the abstract kinds "struct" and "stringer"
type vStruct struct {
	F interface{}
	G interface{}
	h interface{} // unexported
}

type vStringer struct{ s string }

func (v vStringer) String() string { return v.s }

// rawMarker reports a context marker that reached the output unescaped: "<m<i>" or "<i>&'\">" (any letter case).
func rawMarker(out string) string {
	lo := strings.ToLower(out)
	for _, i := range []string{"1", "2", "3", "4"} {
		if strings.Contains(lo, "<m"+i) || strings.Contains(lo, "m"+i+"&'\"") || strings.Contains(lo, i+"&'\">") {
			return "marker " + i
		}
	}
	return ""
}

// cmdC02Replay: the property's own observable (no raw marker in the output of an opt-out-free program); the exact
// output predicted by the specification is compared as well, but a difference there is only counted (it belongs to
// C09/C12/C19), not reported.
func cmdC02Replay(args []string) {
	rep := newReport("c02-replay")
	seen := map[string]bool{}
	diag, diagOther := 0, 0
	readVectors(func(raw json.RawMessage) {
		var v renderVector
		if err := json.Unmarshal(raw, &v); err != nil {
			fatal("bad vector", err, string(raw)[:300])
		}
		rep.Vectors++
		src, got, want, _, problem := renderVec(&v)
		rep.Checked++
		seen[src] = true
		if got.Panic != "" {
			rep.viol(fmt.Sprintf("autoescape: template %q: panic %s", src, firstLine(got.Panic)), map[string]interface{}{"vector": raw, "cmd": "c02-replay"})
			return
		}
		if m := rawMarker(got.Out); m != "" {
			rep.viol(fmt.Sprintf("autoescape: template %q wrote a context string unescaped (%s): %q", src, m, got.Out),
				map[string]interface{}{"vector": raw, "src": src, "got": got.Out, "want": want, "cmd": "c02-replay"})
			return
		}
		if problem != "" && !strings.HasPrefix(problem, "SKIP") {
			diag++
			if !strings.Contains(src, "{% for c") && !strings.Contains(src, "fs") { // (iterating over the characters of a marker: the model's marker is one atom; fs: text differs per call)
				diagOther++
			}
		}
		if rep.Checked%2999 == 1 {
			rep.sample(map[string]interface{}{"template": src, "output": got.Out, "specification": want})
		}
	})
	rep.Distinct = len(seen)
	rep.Extra["exact_output_differences_not_reported_here"] = diag
	rep.Extra["exact_output_differences_outside_character_loops"] = diagOther
	rep.emit()
}

func init() { commands["c02-replay"] = cmdC02Replay }

// toValue wraps a Go value for ApplyFilter; the result of an inner (symbolic) filter application already is a *Value.
func toValue(x interface{}) *pongo2.Value {
	if v, ok := x.(*pongo2.Value); ok {
		return v
	}
	return pongo2.AsValue(x)
}
