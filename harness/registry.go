package main

// Registry histories (PongoRegistry.tla). The registries are process-global, so every history runs in a process of
// its own (render-isolated registry-replay).

import (
	"encoding/json"
	"fmt"
	"strings"

	"github.com/flosch/pongo2/v6"
)

type regOp struct {
	Op   string `json:"op"`
	K    string `json:"k"`
	N    string `json:"n"`
	I    int    `json:"i"`
	How  string `json:"how"`
	OK   bool   `json:"ok"`
	Impl int    `json:"impl"`
}

type regTagNode struct{ i int }

func (n *regTagNode) Execute(ctx *pongo2.ExecutionContext, w pongo2.TemplateWriter) *pongo2.Error {
	w.WriteString(fmt.Sprintf("T%d", n.i))
	return nil
}

func cmdRegistryReplay(args []string) {
	rep := newReport("registry-replay")
	readVectors(func(raw json.RawMessage) {
		var v struct {
			Hist []regOp `json:"hist"`
		}
		if err := json.Unmarshal(raw, &v); err != nil {
			fatal("bad vector", err)
		}
		rep.Vectors++
		rep.Checked++
		var desc []string
		for _, o := range v.Hist {
			desc = append(desc, fmt.Sprintf("%s(%s %s %d %s)", o.Op, o.K, o.N, o.I, o.How))
		}
		viol := func(i int, what string) {
			rep.viol(fmt.Sprintf("registry history [%s] step %d: %s", strings.Join(desc, " "), i, what), map[string]interface{}{"vector": raw, "cmd": "registry-replay"})
		}
		mkFilter := func(i int) pongo2.FilterFunction {
			return func(in *pongo2.Value, p *pongo2.Value) (*pongo2.Value, *pongo2.Error) {
				return pongo2.AsValue(fmt.Sprintf("F%d", i)), nil
			}
		}
		mkTag := func(i int) pongo2.TagParser {
			return func(doc *pongo2.Parser, start *pongo2.Token, a *pongo2.Parser) (pongo2.INodeTag, *pongo2.Error) {
				return &regTagNode{i}, nil
			}
		}
		for i, o := range v.Hist {
			switch o.Op {
			case "Register", "Replace":
				var err error
				switch {
				case o.Op == "Register" && o.K == "filter":
					err = pongo2.RegisterFilter(o.N, mkFilter(o.I))
				case o.Op == "Register":
					err = pongo2.RegisterTag(o.N, mkTag(o.I))
				case o.K == "filter":
					err = pongo2.ReplaceFilter(o.N, mkFilter(o.I))
				default:
					err = pongo2.ReplaceTag(o.N, mkTag(o.I))
				}
				if (err == nil) != o.OK {
					viol(i, fmt.Sprintf("%s returned %v, specification: %v", o.Op, err, map[bool]string{true: "accepted", false: "refused"}[o.OK]))
				}
				if o.K == "filter" && pongo2.FilterExists(o.N) != (o.Impl != 0) {
					viol(i, "FilterExists disagrees with the specification's registry")
				}
			case "Use":
				set := pongo2.NewSet("reg", newMemLoader("reg", nil))
				var src, want string
				switch {
				case o.K == "tag":
					src, want = "{% "+o.N+" %}", fmt.Sprintf("T%d", o.Impl)
				case o.How == "filtertag":
					src, want = "{% filter "+o.N+" %}x{% endfilter %}", fmt.Sprintf("F%d", o.Impl)
				case o.How == "apply":
					val, err := pongo2.ApplyFilter(o.N, pongo2.AsValue("x"), nil)
					if (err == nil) != o.OK {
						viol(i, fmt.Sprintf("ApplyFilter error %v, specification ok=%v", err, o.OK))
					} else if err == nil && val.String() != fmt.Sprintf("F%d", o.Impl) {
						viol(i, "ApplyFilter ran "+val.String()+fmt.Sprintf(", specification F%d", o.Impl))
					}
					continue
				default:
					src, want = "{{ 1|"+o.N+" }}", fmt.Sprintf("F%d", o.Impl)
				}
				out := render(set, src, nil)
				if out.Panic != "" {
					viol(i, "panic: "+out.Panic)
				} else if o.OK && (out.Err != "" || out.Out != want) {
					viol(i, fmt.Sprintf("%q rendered %q (%s), specification %q", src, out.Out, firstLine(out.Err), want))
				} else if !o.OK && out.Err == "" {
					viol(i, fmt.Sprintf("%q uses an unregistered name and rendered %q silently", src, out.Out))
				} else if !o.OK && o.How != "filtertag" && !strings.HasPrefix(out.Err, "compile:") {
					viol(i, fmt.Sprintf("%q uses an unregistered name: expected a compile-time error, got %s", src, firstLine(out.Err)))
				}
			}
		}
	})
	rep.Distinct = rep.Checked
	rep.emit()
}

func init() { commands["registry-replay"] = cmdRegistryReplay }
