package main

// C17 / C18 (and spaceless for C15): reference results of PongoFilters.tla replayed through the public ApplyFilter
// and through the template syntax.

import (
	"encoding/json"
	"fmt"
	"strconv"
	"strings"

	"github.com/flosch/pongo2/v6"
)

type filterVector struct {
	Fam string `json:"fam"`
	F   string `json:"f"`
	In  AV     `json:"in"`
	Arg AV     `json:"arg"`
	Out AV     `json:"out"`
}

// valueMatches compares an engine value with the abstract reference value.
func valueMatches(v *pongo2.Value, want AV) (bool, string) {
	switch want.K {
	case "str":
		w := atomsText(want.S)
		if !v.IsString() && !(w == "" && v.IsNil()) {
			return v.String() == w, fmt.Sprintf("%q (not a string)", v.String())
		}
		return v.String() == w, fmt.Sprintf("%q", v.String())
	case "int":
		return v.IsInteger() && v.Integer() == want.N, fmt.Sprintf("%v", v.Interface())
	case "bool":
		return v.IsBool() && v.Bool() == (want.N == 1), fmt.Sprintf("%v", v.Interface())
	case "nil":
		return v.IsNil(), fmt.Sprintf("%v", v.Interface())
	case "fix":
		return v.IsFloat() && v.Float() == float64(want.N)/1000, fmt.Sprintf("%v", v.Interface())
	case "list":
		if !v.CanSlice() || v.IsString() || v.Len() != len(want.L) {
			return false, fmt.Sprintf("%v", v.Interface())
		}
		for i, e := range want.L {
			if ok, _ := valueMatches(v.Index(i), e); !ok {
				return false, fmt.Sprintf("%v", v.Interface())
			}
		}
		return true, ""
	}
	return false, "unsupported reference kind " + want.K
}

func showAV(v AV) string {
	switch v.K {
	case "str":
		return strconv.Quote(atomsText(v.S))
	case "int":
		return strconv.Itoa(v.N)
	case "bool":
		return fmt.Sprint(v.N == 1)
	case "nil":
		return "nil"
	case "markup":
		return "safe(" + strconv.Quote(piecesText(v.L)) + ")"
	case "fix":
		return strconv.FormatFloat(float64(v.N)/1000, 'f', -1, 64)
	case "time":
		return abstractInstant(v.N).Format("2006-01-02T15:04:05")
	case "list":
		var p []string
		for _, e := range v.L {
			p = append(p, showAV(e))
		}
		return "[" + strings.Join(p, " ") + "]"
	case "pair":
		return "(" + showAV(v.L[0]) + "," + showAV(v.L[1]) + ")"
	case "error":
		return "error"
	}
	return v.K
}

func cmdFilterReplay(args []string) {
	rep := newReport("filter-replay")
	seen := map[string]bool{}
	set := pongo2.NewSet("flt", newMemLoader("flt", nil))
	readVectors(func(raw json.RawMessage) {
		var v filterVector
		if err := json.Unmarshal(raw, &v); err != nil {
			fatal("bad vector", err)
		}
		rep.Vectors++
		key := fmt.Sprintf("filter[%s] %s | %s : %s", v.Fam, showAV(v.In), v.F, showAV(v.Arg))
		if seen[key] {
			return
		}
		seen[key] = true
		rep.Checked++
		det := map[string]interface{}{"vector": raw, "cmd": "filter-replay"}
		in := concretise(v.In)
		switch v.F {
		case "widthratio", "widthratio_as":
			num := func(n int) string { // (a negative number after another argument would read as a subtraction)
				if n < 0 {
					return "(" + strconv.Itoa(n) + ")"
				}
				return strconv.Itoa(n)
			}
			src := fmt.Sprintf("{%% widthratio %s %s %s %%}", num(v.In.N), num(v.Arg.L[0].N), num(v.Arg.L[1].N))
			if v.F == "widthratio_as" {
				src = fmt.Sprintf("{%% widthratio %s %s %s as wr %%}{{ wr }}", num(v.In.N), num(v.Arg.L[0].N), num(v.Arg.L[1].N))
			}
			o := render(set, src, nil)
			lo, hi := strconv.Itoa(v.Out.L[0].N), strconv.Itoa(v.Out.L[1].N)
			if o.class() != "ok" || (o.Out != lo && o.Out != hi) {
				rep.viol(fmt.Sprintf("filter[widthratio] %s renders %q %s, reference %s", src, o.Out, firstLine(o.Err+o.Panic), lo+map[bool]string{true: "", false: " or " + hi}[lo == hi]), det)
			}
			return
		case "spaceless":
			o := render(set, "{% spaceless %}{{ v|safe }}{% endspaceless %}", pongo2.Context{"v": in})
			if w := atomsText(v.Out.S); o.class() != "ok" || o.Out != w {
				rep.viol(fmt.Sprintf("filter[spaceless] body %s renders %q %s, reference %q", showAV(v.In), o.Out, firstLine(o.Err+o.Panic), w), det)
			}
			return
		}
		var arg interface{}
		argSrc := ""
		switch {
		case v.F == "slice":
			b := func(x AV) string {
				if x.K == "nil" {
					return ""
				}
				return strconv.Itoa(x.N)
			}
			arg = b(v.Arg.L[0]) + ":" + b(v.Arg.L[1])
			argSrc = ":a"
		case v.Arg.K != "nil":
			arg = concretise(v.Arg)
			argSrc = ":a"
		}
		// route 1: the public ApplyFilter
		var res *pongo2.Value
		var ferr *pongo2.Error
		o := protect(func() (string, error) {
			res, ferr = pongo2.ApplyFilter(v.F, pongo2.AsValue(in), pongo2.AsValue(arg))
			return "", nil
		})
		if o.Panic != "" {
			rep.viol(key+": ApplyFilter panicked: "+firstLine(o.Panic), det)
			return
		}
		if v.Out.K == "error" {
			if ferr == nil {
				rep.viol(key+fmt.Sprintf(": ApplyFilter returned %q, reference: error", res.String()), det)
			}
		} else if ferr != nil {
			rep.viol(key+": ApplyFilter failed ("+firstLine(ferr.Error())+"), reference "+showAV(v.Out), det)
		} else if ok, got := valueMatches(res, v.Out); !ok {
			rep.viol(key+": ApplyFilter returned "+got+", reference "+showAV(v.Out), det)
		}
		// route 2: the template syntax (printed form)
		if v.Out.K == "str" || v.Out.K == "int" || v.Out.K == "bool" || v.Out.K == "error" || v.Out.K == "fix" {
			to := render(set, "{% autoescape off %}{{ v|"+v.F+argSrc+" }}{% endautoescape %}", pongo2.Context{"v": in, "a": arg})
			switch {
			case to.Panic != "":
				rep.viol(key+": template route panicked: "+firstLine(to.Panic), det)
			case v.Out.K == "error":
				if to.Err == "" {
					rep.viol(key+fmt.Sprintf(": template route rendered %q, reference: error", to.Out), det)
				}
			case to.Err != "":
				rep.viol(key+": template route failed ("+firstLine(to.Err)+"), reference "+showAV(v.Out), det)
			default:
				if w := written(v.Out, 0); to.Out != w {
					rep.viol(key+fmt.Sprintf(": template route rendered %q, reference %q", to.Out, w), det)
				}
			}
		}
		if rep.Checked%4999 == 1 {
			rep.sample(map[string]interface{}{"in": showAV(v.In), "filter": v.F, "arg": showAV(v.Arg), "reference": showAV(v.Out)})
		}
	})
	rep.Distinct = len(seen)
	rep.emit()
}

func init() { commands["filter-replay"] = cmdFilterReplay }

// cmdC17Sweep concretises the specification's character classes exhaustively: every rune of the BMP (and samples above it)
// is classified by the rules PongoFilters.tla states per class and run through the real filters alone and next to
// each special character.
func cmdC17Sweep(args []string) {
	rep := newReport("c17-sweep")
	apply := func(f, s string) (string, bool) {
		v, err := pongo2.ApplyFilter(f, pongo2.AsValue(s), nil)
		if err != nil {
			return err.Error(), false
		}
		return v.String(), true
	}
	isLetter := func(r rune) bool { return (r >= 'a' && r <= 'z') || (r >= 'A' && r <= 'Z') }
	unreserved := func(r rune) bool {
		return isLetter(r) || (r >= '0' && r <= '9') || r == '-' || r == '_' || r == '.' || r == '~'
	}
	pct := func(r rune) string {
		var b strings.Builder
		for _, c := range []byte(string(r)) {
			fmt.Fprintf(&b, "%%%02X", c)
		}
		return b.String()
	}
	refEscape := func(r rune) string {
		switch r {
		case '&':
			return "&amp;"
		case '<':
			return "&lt;"
		case '>':
			return "&gt;"
		case '"':
			return "&quot;"
		case '\'':
			return "&#39;"
		}
		return string(r)
	}
	refJs := func(r rune) string {
		if isLetter(r) || r == ' ' || r == '/' {
			return string(r)
		}
		if r > 0xFFFF {
			r -= 0x10000
			return fmt.Sprintf(`\u%04X\u%04X`, 0xD800+(r>>10), 0xDC00+(r&0x3FF))
		}
		return fmt.Sprintf(`\u%04X`, r)
	}
	refUrl := func(r rune) string {
		if unreserved(r) {
			return string(r)
		}
		if r == ' ' {
			return "+"
		}
		return pct(r)
	}
	refIri := func(r rune) string {
		if strings.ContainsRune("/#%[]=:;$&()+,!?*@'~", r) {
			return string(r)
		}
		return refUrl(r)
	}
	refSlash := func(r rune) string {
		if r == '\\' || r == '"' || r == '\'' {
			return `\` + string(r)
		}
		return string(r)
	}
	type flt struct {
		name string
		ref  func(rune) string
	}
	filters := []flt{{"escape", refEscape}, {"e", refEscape}, {"escapejs", refJs}, {"urlencode", refUrl}, {"iriencode", refIri}, {"addslashes", refSlash}}
	specials := []rune{'&', '<', '\'', '\\', ' ', 'a'}
	var runes []rune
	for r := rune(0); r <= 0xFFFF; r++ {
		if r >= 0xD800 && r <= 0xDFFF {
			continue
		}
		runes = append(runes, r)
	}
	runes = append(runes, 0x10000, 0x1F600, 0x10FFFF)
	for _, r := range runes {
		for _, f := range filters {
			// alone, and between / before / after specials (multi-character windows)
			inputs := []string{string(r)}
			for _, sp := range specials {
				inputs = append(inputs, string(sp)+string(r), string(r)+string(sp))
			}
			for _, in := range inputs {
				if f.name == "escapejs" && (strings.Contains(in, `\r`) || strings.Contains(in, `\n`)) {
					continue // pongo2's two-character deviation, covered by the enumerated strings
				}
				var want strings.Builder
				for _, c := range in {
					want.WriteString(f.ref(c))
				}
				got, ok := apply(f.name, in)
				rep.Checked++
				if !ok || got != want.String() {
					rep.viol(fmt.Sprintf("filter[%s] character U+%04X in %q: result %q, class rule gives %q", f.name, r, in, got, want.String()), map[string]interface{}{"cmd": "c17-sweep"})
				}
			}
		}
		// safe returns its input
		if got, ok := apply("safe", string(r)); !ok || got != string(r) {
			rep.viol(fmt.Sprintf("filter[safe] changed U+%04X", r), nil)
		}
	}
	// invalid UTF-8 is never turned into something dangerous
	for _, in := range []string{"\xff<", "<\xc3", "\xe2\x82<>&", "a\xffb"} {
		got, _ := apply("escape", in)
		if strings.ContainsAny(got, "<>\"'") {
			rep.viol(fmt.Sprintf("filter[escape] left a special character in %q -> %q", in, got), nil)
		}
		rep.Checked++
	}
	rep.Distinct = rep.Checked
	rep.sample(map[string]interface{}{"runes": len(runes), "filters": len(filters), "windows_per_rune": 1 + 2*len(specials)})
	rep.emit()
}

func init() { commands["c17-sweep"] = cmdC17Sweep }
