package main

// Lexer conformance (C06, C15, C16): token lists predicted by PongoLexer.tla for every generated source are
// compared with the real lexer's (VerifLex hook). Each disagreement is classified by what differs:
//   "tokens" (types / values / count / error-vs-success)  -> C06
//   "trim"   (TrimWhitespaces flag)                          -> C15
//   "pos"    (line / column of a token or of the lexer error) -> C16

import (
	"encoding/json"
	"fmt"
	"os"
	"strings"

	"github.com/flosch/pongo2/v6"
)

type specTok struct {
	Typ  string `json:"typ"`
	Val  []int  `json:"val"`
	Line int    `json:"line"`
	Col  int    `json:"col"`
	Trim bool   `json:"trim"`
	From int    `json:"from"`
}

type lexVector struct {
	Src    []int     `json:"src"`
	Tokens []specTok `json:"tokens"`
	Err    struct {
		Msg  string `json:"msg"`
		Line int    `json:"line"`
		Col  int    `json:"col"`
	} `json:"err"`
}

func bytesOf(a []int) string {
	b := make([]byte, len(a))
	for i, x := range a {
		b[i] = byte(x)
	}
	return string(b)
}

func typName(t pongo2.TokenType) string {
	switch t {
	case pongo2.TokenHTML:
		return "HTML"
	case pongo2.TokenKeyword:
		return "Keyword"
	case pongo2.TokenIdentifier:
		return "Identifier"
	case pongo2.TokenString:
		return "String"
	case pongo2.TokenNumber:
		return "Number"
	case pongo2.TokenSymbol:
		return "Symbol"
	case pongo2.TokenError:
		return "Error"
	}
	return fmt.Sprintf("T%d", int(t))
}

func showToks(ts []*pongo2.Token) string {
	var b strings.Builder
	for _, t := range ts {
		fmt.Fprintf(&b, "%s(%q)@%d:%d%s ", typName(t.Typ), t.Val, t.Line, t.Col, map[bool]string{true: "-", false: ""}[t.TrimWhitespaces])
	}
	return b.String()
}

func showSpec(ts []specTok) string {
	var b strings.Builder
	for _, t := range ts {
		fmt.Fprintf(&b, "%s(%q)@%d:%d%s ", t.Typ, bytesOf(t.Val), t.Line, t.Col, map[bool]string{true: "-", false: ""}[t.Trim])
	}
	return b.String()
}

// compareLex returns the kinds of disagreement and a description.
func compareLex(v *lexVector) (kinds map[string]string, got string) {
	kinds = map[string]string{}
	src := bytesOf(v.Src)
	var toks []*pongo2.Token
	var lerr *pongo2.Error
	o := protect(func() (string, error) {
		toks, lerr = pongo2.VerifLex("<lex>", src)
		return "", nil
	})
	if o.Panic != "" {
		kinds["panic"] = "lexer panicked: " + o.Panic
		return kinds, ""
	}
	if lerr != nil {
		got = fmt.Sprintf("error %q at %d:%d", lerr.OrigError, lerr.Line, lerr.Column)
	} else {
		got = showToks(toks)
	}
	if v.Err.Msg != "" {
		if lerr == nil {
			kinds["tokens"] = "lexer accepted a source the specification rejects (" + v.Err.Msg + ")"
			return
		}
		if lerr.Line != v.Err.Line || lerr.Column != v.Err.Col {
			kinds["pos"] = fmt.Sprintf("lexer error reported at %d:%d, specification %d:%d", lerr.Line, lerr.Column, v.Err.Line, v.Err.Col)
		}
		if lerr.Filename != "<lex>" {
			kinds["pos"] = "lexer error does not name the template"
		}
		return
	}
	if lerr != nil {
		kinds["tokens"] = "lexer rejected a source the specification accepts: " + lerr.OrigError.Error()
		return
	}
	if len(toks) != len(v.Tokens) {
		kinds["tokens"] = fmt.Sprintf("%d tokens, specification %d", len(toks), len(v.Tokens))
		return
	}
	for i, st := range v.Tokens {
		t := toks[i]
		if typName(t.Typ) != st.Typ || t.Val != bytesOf(st.Val) {
			kinds["tokens"] = fmt.Sprintf("token %d is %s(%q), specification %s(%q)", i, typName(t.Typ), t.Val, st.Typ, bytesOf(st.Val))
			return
		}
		if t.TrimWhitespaces != st.Trim {
			kinds["trim"] = fmt.Sprintf("token %d trim flag %v, specification %v", i, t.TrimWhitespaces, st.Trim)
		}
		if t.Line != st.Line || t.Col != st.Col {
			if _, dup := kinds["pos"]; !dup {
				kinds["pos"] = fmt.Sprintf("token %d %s(%q) at %d:%d, specification %d:%d", i, typName(t.Typ), t.Val, t.Line, t.Col, st.Line, st.Col)
			}
		}
		if t.Filename != "<lex>" {
			kinds["pos"] = fmt.Sprintf("token %d does not carry the template name", i)
		}
	}
	return
}

func cmdLexReplay(args []string) {
	rep := newReport("lex-replay")
	counts := map[string]int{}
	var traceOut *json.Encoder
	if len(args) > 0 {
		f, err := os.Create(args[0])
		if err != nil {
			fatal(err)
		}
		defer f.Close()
		traceOut = json.NewEncoder(f)
	}
	_ = traceOut
	readVectors(func(raw json.RawMessage) {
		var v lexVector
		if err := json.Unmarshal(raw, &v); err != nil {
			fatal("bad vector", err)
		}
		rep.Vectors++
		rep.Checked++
		kinds, got := compareLex(&v)
		for k, what := range kinds {
			counts[k]++
			rep.viol(fmt.Sprintf("lexer[%s]: source %q: %s", k, bytesOf(v.Src), what),
				map[string]interface{}{"kind": k, "vector": raw, "got": got, "want": showSpec(v.Tokens) + v.Err.Msg, "cmd": "lex-replay"})
		}
		if rep.Checked%9973 == 0 {
			rep.sample(map[string]interface{}{"src": bytesOf(v.Src), "tokens": showSpec(v.Tokens), "err": v.Err.Msg})
		}
	})
	rep.Distinct = rep.Checked
	rep.Extra["by_kind"] = counts
	rep.emit()
}

func init() {
	commands["lex-replay"] = cmdLexReplay
}

// ---------------------------------------------------------------- documents (PongoDoc.tla)

type docVector struct {
	Src      []int `json:"src"`
	Stripped []int `json:"stripped"`
	Opts     struct {
		Trim   bool `json:"trim"`
		Lstrip bool `json:"lstrip"`
	} `json:"opts"`
	Out []int `json:"out"`
}

func renderWithOpts(src string, trim, lstrip bool, viaSet bool) outcome {
	set := pongo2.NewSet("doc", newMemLoader("doc", nil))
	if viaSet {
		set.Options.TrimBlocks = trim
		set.Options.LStripBlocks = lstrip
	}
	tpl, o := compileString(set, src)
	if o.class() != "ok" {
		o.Err = "compile: " + o.Err
		return o
	}
	if !viaSet {
		tpl.Options.TrimBlocks = trim
		tpl.Options.LStripBlocks = lstrip
	}
	return execute(tpl, pongo2.Context{"v": "V", "z": "Z", "c": "C", "x": "X"})
}

// renderAfterSwitch: the options are what they are when the template is executed (FragOutput is a function of the options
// of that execution): the same compiled template is first executed under the opposite settings, then under the requested ones.
func renderAfterSwitch(src string, trim, lstrip bool) outcome {
	set := pongo2.NewSet("doc", newMemLoader("doc", nil))
	tpl, o := compileString(set, src)
	if o.class() != "ok" {
		o.Err = "compile: " + o.Err
		return o
	}
	ctx := pongo2.Context{"v": "V", "z": "Z", "c": "C", "x": "X"}
	tpl.Options.TrimBlocks, tpl.Options.LStripBlocks = !trim, !lstrip
	execute(tpl, ctx)
	tpl.Options.TrimBlocks, tpl.Options.LStripBlocks = trim, lstrip
	return execute(tpl, ctx)
}

func cmdDocReplay(args []string) {
	rep := newReport("doc-replay")
	counts := map[string]int{}
	n := 0
	readVectors(func(raw json.RawMessage) {
		var v docVector
		if err := json.Unmarshal(raw, &v); err != nil {
			fatal("bad vector", err)
		}
		rep.Vectors++
		n++
		src, stripped, want := bytesOf(v.Src), bytesOf(v.Stripped), bytesOf(v.Out)
		plain := !v.Opts.Trim && !v.Opts.Lstrip && !strings.Contains(src, "{{-") && !strings.Contains(src, "{%-") &&
			!strings.Contains(src, "-}}") && !strings.Contains(src, "-%}")
		kind := "ws"
		if plain {
			kind = "text"
		} else if strings.IndexFunc(src, func(r rune) bool { return r < 0x20 && r != '\t' && r != '\n' && r != '\r' || r == 0x7f }) >= 0 {
			kind = "ctl" // control bytes in literal text next to trimming constructs: they are text, not white space
		}
		o := renderWithOpts(src, v.Opts.Trim, v.Opts.Lstrip, n%2 == 0)
		rep.Checked++
		if o.class() != "ok" || o.Out != want {
			counts[kind]++
			rep.viol(fmt.Sprintf("document[%s]: source %q TrimBlocks=%v LStripBlocks=%v rendered %q (%s), specification %q",
				kind, src, v.Opts.Trim, v.Opts.Lstrip, o.Out, o.Err+o.Panic, want),
				map[string]interface{}{"kind": kind, "vector": raw, "cmd": "doc-replay"})
		}
		if n%3 == 0 {
			if o3 := renderAfterSwitch(src, v.Opts.Trim, v.Opts.Lstrip); o3.class() != "ok" || o3.Out != want {
				counts[kind]++
				rep.viol(fmt.Sprintf("document[%s]: source %q executed under TrimBlocks=%v LStripBlocks=%v after an execution of the same template under the opposite settings rendered %q (%s), specification %q",
					kind, src, v.Opts.Trim, v.Opts.Lstrip, o3.Out, o3.Err+o3.Panic, want),
					map[string]interface{}{"kind": kind, "vector": raw, "cmd": "doc-replay"})
			}
		}
		// the hand-stripped source, options off, must give the same output
		o2 := renderWithOpts(stripped, false, false, false)
		if o2.class() != "ok" || o2.Out != want {
			counts[kind]++
			rep.viol(fmt.Sprintf("document[%s]: hand-stripped source %q (from %q TrimBlocks=%v LStripBlocks=%v) rendered %q (%s), specification %q",
				kind, stripped, src, v.Opts.Trim, v.Opts.Lstrip, o2.Out, o2.Err+o2.Panic, want),
				map[string]interface{}{"kind": kind, "vector": raw, "cmd": "doc-replay"})
		}
		if rep.Checked%4999 == 0 {
			rep.sample(map[string]interface{}{"src": src, "stripped": stripped, "opts": v.Opts, "out": want})
		}
	})
	rep.Distinct = rep.Checked
	rep.Extra["by_kind"] = counts
	rep.emit()
}

func init() {
	commands["doc-replay"] = cmdDocReplay
}

// ---------------------------------------------------------------- lexer traces (code -> spec)

// cmdLexTrace lexes the given files (and, for *.tpl fixtures, nothing else) with the real lexer and writes
// the event log for Trace_PongoLexer.tla.
func cmdLexTrace(args []string) {
	rep := newReport("lex-trace")
	if len(args) < 2 {
		fatal("usage: lex-trace <out.ndjson> <file>...")
	}
	f, err := os.Create(args[0])
	if err != nil {
		fatal(err)
	}
	defer f.Close()
	enc := json.NewEncoder(f)
	events := 0
	ints := func(s string) []int {
		out := make([]int, len(s))
		for i := 0; i < len(s); i++ {
			out[i] = int(s[i])
		}
		return out
	}
	for _, fn := range args[1:] {
		b, err := os.ReadFile(fn)
		if err != nil {
			fatal(err)
		}
		src := string(b)
		if len(src) > 6000 {
			src = src[:6000]
		}
		toks, lerr := pongo2.VerifLex(fn, src)
		enc.Encode(map[string]interface{}{"ev": "Begin", "src": ints(src), "file": fn})
		events++
		if lerr != nil {
			enc.Encode(map[string]interface{}{"ev": "LexErr", "line": lerr.Line, "col": lerr.Column, "msg": lerr.OrigError.Error()})
			events++
		} else {
			for _, t := range toks {
				enc.Encode(map[string]interface{}{"ev": "Tok", "typ": typName(t.Typ), "val": ints(t.Val), "line": t.Line, "col": t.Col, "trim": t.TrimWhitespaces})
				events++
			}
			enc.Encode(map[string]interface{}{"ev": "End"})
			events++
		}
		rep.Checked++
	}
	rep.Vectors = rep.Checked
	rep.Extra["events"] = events
	rep.TraceFile = args[0]
	rep.emit()
}

func init() {
	commands["lex-trace"] = cmdLexTrace
}
