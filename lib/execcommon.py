"""Program corpus shared by C04 / C05: the programs TLC generates for C09, C12 and C13 (ASTs + contexts + files)."""
import json
import os

from common import *  # noqa


def corpus(rep, quick):
    lines = []
    jobs = [("MC_RenderC09", "MC_RenderC09_q.cfg"), ("MC_RenderC09", "MC_RenderC09_forfor.cfg"),
            ("MC_RenderC12", "MC_RenderC12_d2.cfg"), ("MC_RenderC13", "MC_RenderC13_sig.cfg"),
            ("MC_RenderC13", "MC_RenderC13_kinds.cfg")]
    if not quick:
        jobs += [("MC_RenderC09", "MC_RenderC09_for3.cfg"), ("MC_RenderC09", "MC_RenderC09_elifloop.cfg")]
    for mod, cfg in jobs:
        res = run_tlc(mod, cfg, timeout=1800, deadlock=False, vector_sink=lambda o: lines.append(json.dumps(o)))
        require_model_ok(res, cfg)
        rep.add_tlc(cfg + " (program corpus)", res)
    path = os.path.join(BUILD, "corpus_%s.ndjson" % rep.pid)
    with open(path, "w") as f:
        f.write("\n".join(lines) + "\n")
    return path, len(lines)
