"""C13 Macros bind arguments by position with defaults, and recursion is bounded (PongoRender.tla macro part)."""
from common import *  # noqa
import rendercommon

PID = "C13"


def check(tier):
    rep = Reporter(PID, tier)
    pvh = build_harness()
    rendercommon.render_replay(rep, pvh, "MC_RenderC13", ["MC_RenderC13_sig.cfg", "MC_RenderC13_kinds.cfg"])
    # recursion without a base case: each program in a process of its own (a missing guard kills the process)
    rendercommon.render_replay(rep, pvh, "MC_RenderC13", ["MC_RenderC13_rec.cfg", "MC_RenderC13_recplace.cfg"], isolated=True)
    rep.assumptions += ["default expressions are error-free (whether a default is evaluated when its argument was supplied is not fixed)",
                        "MaxMacroDepth is 6 in the model and 1000 in the code; only unbounded recursion reaches either"]
    return rep.finish(
        rule="all signatures with 0..4 parameters x every subset of parameters with defaults x 0..n+1 arguments x {local, imported, imported "
             "under an alias} (480 programs; TLC also checks ImportEqualsLocal on the model), parameters probed after the call; markup results "
             "through output/set/with/if/loops/autoescape off; all call graphs of 1..3 macros in which every macro calls a macro "
             "unconditionally, local and imported (64), and all graphs of 1..2 macros with the call placed in the body, in a parameter default, "
             "as an argument, in a set binding or in a loop (360), each run in its own process and required to end in an execution error.",
        exhaustive=True)


def replay(doc):
    return rendercommon.replay_one(PID, doc)
