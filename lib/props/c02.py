"""C02 Autoescape: context strings never reach the output unescaped (PongoRender.tla taint pieces)."""
import json

from common import *  # noqa

PID = "C02"


def run_family(rep, pvh, cfg, extra=None):
    lines = []
    res = run_tlc("MC_RenderC02", cfg, timeout=3000, deadlock=False, extra_files=extra,
                  vector_sink=lambda o: lines.append(json.dumps(o)))
    require_model_ok(res, cfg)       # includes NoRaw: the design admits no raw marker on any enumerated route
    rep.add_tlc(cfg, res)
    r = run_harness(pvh, ["c02-replay"], stdin_text="\n".join(lines) + "\n", timeout=3000)
    for v in r["violations"]:
        rep.violation(v["key"], v["detail"])
    rep.cov["evaluations"] += r["checked"]
    rep.cov["distinct_nontrivial"] += r["distinct"]
    rep.cov["traces_validated_against_impl"] += r["checked"]
    rep.extra.setdefault("exact_output_differences_not_reported_here", 0)
    rep.extra["exact_output_differences_not_reported_here"] += r["extra"]["exact_output_differences_not_reported_here"]
    rep.extra.setdefault("exact_output_differences_outside_character_loops", 0)
    rep.extra["exact_output_differences_outside_character_loops"] += r["extra"]["exact_output_differences_outside_character_loops"]
    for s in r["samples"][:2]:
        rep.sample(s)


def check(tier):
    rep = Reporter(PID, tier)
    pvh = build_harness()
    run_family(rep, pvh, "MC_RenderC02_routes.cfg")
    if tier != "quick":
        run_family(rep, pvh, "MC_RenderC02_routes3.cfg")       # three transports deep (84 672 routes)
    run_family(rep, pvh, "MC_RenderC02_mapkey.cfg")
    run_family(rep, pvh, "MC_RenderC02_ftparam.cfg")
    run_family(rep, pvh, "MC_RenderC02_chainparam.cfg")
    reg = run_harness(pvh, ["registry"])["extra"]
    optout = {"safe", "truncatechars_html", "truncatewords_html", "random"}
    filters = [f for f in reg["filters"] if f not in optout]
    cfg = ("INIT Init\nNEXT Next\nCONSTANTS\n  Family = \"filters\"\n  RegFilters = {%s}\nINVARIANTS EmitVec\n"
           % ", ".join('"%s"' % f for f in filters))
    run_family(rep, pvh, "MC_RenderC02_filters.cfg", {"MC_RenderC02_filters.cfg": cfg})
    rep.extra["registered_filters_swept"] = len(filters)
    rep.assumptions += ["opt-outs named by the statement are excluded from the generated programs: |safe, autoescape off, truncatechars_html, "
                        "truncatewords_html, values Go marked safe",
                        "the observable is the raw marker text (<m<i>&'\">, any letter case); exact output is compared but attributed to C09/C12/C19"]
    return rep.finish(
        rule="(thorough: also binding transport x transport x binding transport, three deep) "
             "every route source (string, map value, list item, struct field, Stringer, string behind a pointer, map key) x transport x transport x sink over 21 "
             "transports (set, with, for over array literal / context list / characters, macro argument / default / outer name, "
             "concatenation, array literal + first / join, ifchanged, filter tag, if, default filter, autoescape on) and 7 sinks (output, "
             "firstof, cycle, cycle as, include with/plain, concatenated output); every registered filter (minus the opt-outs) with 3 "
             "argument shapes on every source at 3 sinks. TLC checks NoRawMarker on the model; the real output must not contain the raw marker.",
        exhaustive=True)


def replay(doc):
    d = doc["detail"] or {}
    pvh = build_harness()
    r = run_harness(pvh, ["c02-replay"], stdin_text=json.dumps(d["vector"]) + "\n")
    for v in r["violations"][:5]:
        print("VIOLATION property=%s replay=-" % PID)
        print("  " + v["key"][:400])
    return 1 if r["violations"] else 0
