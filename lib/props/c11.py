"""C11 Templates are composed only through the set's loaders, by the names written (PongoLoader.tla)."""
import json

from common import *  # noqa

PID = "C11"


def check(tier):
    rep = Reporter(PID, tier)
    pvh = build_harness()
    lines = []
    for cfg in ["MC_PongoLoader_q.cfg" if tier == "quick" else "MC_PongoLoader_t.cfg", "MC_PongoLoader_hard.cfg",
                "MC_PongoLoader_hard_extends.cfg", "MC_PongoLoader_hard_import.cfg", "MC_PongoLoader_hard_ssi.cfg", "MC_PongoLoader_hard_ssi_parsed.cfg", "MC_PongoLoader_child.cfg", "MC_PongoLoader_loop.cfg"]:
        res = run_tlc("MC_PongoLoader", cfg, timeout=3000, deadlock=False, vector_sink=lambda o: lines.append(json.dumps(o)))
        require_model_ok(res, cfg)
        rep.add_tlc(cfg, res)
    r = run_harness(pvh, ["c11-replay"], stdin_text="\n".join(lines) + "\n", timeout=3000)
    for v in r["violations"]:
        rep.violation(v["key"], v["detail"])
    rep.cov["evaluations"] = r["checked"]
    rep.cov["distinct_nontrivial"] = r["distinct"]
    rep.cov["traces_validated_against_impl"] = r["checked"]
    for s in r["samples"][:3]:
        rep.sample(s)
    # what the included template sees (the caller's view plus the pairs, or the pairs alone with `only`): PongoRender's include rule,
    # with the include placed inside every binding construct
    import rendercommon
    rendercommon.render_replay(rep, pvh, "MC_RenderC12", ["MC_RenderC12_incl.cfg"])
    rep.assumptions += ["computed (lazy) include names are rooted (the statement fixes 'literal = computed' for rooted names only)",
                        "the recording loaders' own Abs implements the name rules (rooted: from the root; otherwise: the referring template's directory; '..' cannot leave the root)"]
    return rep.finish(
        rule="two loaders over the paths /a /d/a /c /d/c in every subset combination (quick: 6 subsets each; thorough: all 16x16), the root "
             "template at / or in /d and in either loader, one reference of each kind {include, include if_exists, computed include, "
             "computed include if_exists, extends, import, ssi, ssi parsed} by each of 9 names (relative, rooted, with '..', with '.', "
             "missing), optionally a second include; a-files include 'c' relatively. The real engine must give the specification's output / "
             "error, the recording loaders must have been asked for exactly the specification's set of (loader, path) pairs, and the "
             "canary files on the real file system under the same names must never be read.",
        exhaustive=True)


def replay(doc):
    pvh = build_harness()
    r = run_harness(pvh, ["c11-replay"], stdin_text=json.dumps(doc["detail"]["vector"]) + "\n")
    for v in r["violations"][:5]:
        print("VIOLATION property=%s replay=-" % PID)
        print("  " + v["key"][:400])
    return 1 if r["violations"] else 0
