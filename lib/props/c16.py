"""C16 Diagnostics point at the right place (PongoLexer.tla positions)."""
from common import *  # noqa
import lexcommon

PID = "C16"
KINDS = {"pos", "errpos"}


def check(tier):
    rep = Reporter(PID, tier)
    pvh = build_harness()
    q = tier == "quick"
    n = lexcommon.lex_replay(rep, pvh, ["MC_PongoLexer_code_q.cfg", "MC_PongoLexer_mixed_q.cfg", "MC_PongoLexer_text_q.cfg"] if q else
                             ["MC_PongoLexer_code_t.cfg", "MC_PongoLexer_text_t.cfg", "MC_PongoLexer_mixed_t.cfg"], KINDS)
    n += lexcommon.fixture_traces(rep, pvh, KINDS)
    # errors: failing constructs x layout prefixes x places (own text, child block, Super, parent block, include, import) and the
    # programs of the grammar: the position an error carries must be one in the template it names, where its token's text stands
    import json
    lines = []
    res = run_tlc("MC_PongoDiag", "MC_PongoDiag.cfg", timeout=600, deadlock=False, vector_sink=lambda o: lines.append(json.dumps(o)))
    require_model_ok(res, "MC_PongoDiag.cfg")
    rep.add_tlc("MC_PongoDiag.cfg", res)
    reg = run_harness(pvh, ["registry"])["extra"]
    names = run_harness(pvh, ["c01-names"])["extra"]["names"]
    qq = lambda xs: ", ".join('"%s"' % x for x in xs)
    cfg = ("INIT Init\nNEXT Next\nCONSTANTS\n  RegTags = {%s}\n  RegFilters = {%s}\n  CtxNames = {%s}\n  Budget = %d\n  CrossFamily = \"none\"\nINVARIANTS Emit\n"
           % (qq(reg["tags"]), qq(reg["filters"]), qq(names), 20))
    res = run_tlc("MC_PongoApi", "gen.cfg", timeout=3000, deadlock=False, simulate=(150 if q else 3000), depth=200,
                  extra_files={"gen.cfg": cfg}, vector_sink=lambda o: lines.append(json.dumps(o)))
    require_model_ok(res, "grammar simulation")
    rep.add_tlc("MC_PongoApi grammar simulation (seed %d)" % seed(), res)
    r = run_harness(pvh, ["c16-errors"], stdin_text="\n".join(lines) + "\n", timeout=3000)
    for v in r["violations"]:
        rep.violation(v["key"], v["detail"])
    rep.cov["evaluations"] += r["checked"]
    rep.extra["error_positions_checked"] = r["extra"]["errors_checked"]
    n += r["checked"]
    rep.cov["traces_validated_against_impl"] += n
    rep.assumptions += ["columns are 1-based and counted in bytes; a lexer error is positioned at the start of the construct being lexed "
                        "(an unclosed verbatim block: at the end of input)"]
    return rep.finish(
        rule="every symbol string up to the bound over the text and code-mode alphabets (multi-line, CR, multi-byte, strings with escapes, "
             "comments, verbatim); TLC checks CursorExact/PositionExact (incremental line/column bookkeeping = declarative position) in "
             "every state; every token's and every lexer error's line/column of the real lexer must equal the specification's. Errors: 16 failing "
             "constructs (compile-time and run-time) x 5 layout prefixes x 7 places (the template itself, a child's block, a block reached through "
             "Super, a parent's own block, an included file, a nested include in a loop, an imported macro) and the programs of the grammar "
             "simulation: every error with a position must name one of the program's templates and point into its text at the reported token.",
        exhaustive=True)


def replay(doc):
    return lexcommon.replay_one(PID, doc, KINDS)
