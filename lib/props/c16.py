"""C16 Diagnostics point at the right place (PongoLexer.tla positions)."""
from common import *  # noqa
import lexcommon

PID = "C16"
KINDS = {"pos", "errpos"}


def check(tier):
    rep = Reporter(PID, tier)
    pvh = build_harness()
    q = tier == "quick"
    n = lexcommon.lex_replay(rep, pvh, ["MC_PongoLexer_code_q.cfg", "MC_PongoLexer_mixed_q.cfg", "MC_PongoLexer_text_q.cfg"] if q else
                             ["MC_PongoLexer_code_t.cfg", "MC_PongoLexer_text_t.cfg", "MC_PongoLexer_mixed_t.cfg"], KINDS)
    n += lexcommon.fixture_traces(rep, pvh, KINDS)
    rep.cov["traces_validated_against_impl"] += n
    rep.assumptions += ["columns are 1-based and counted in bytes; a lexer error is positioned at the start of the construct being lexed "
                        "(an unclosed verbatim block: at the end of input)"]
    return rep.finish(
        rule="every symbol string up to the bound over the text and code-mode alphabets (multi-line, CR, multi-byte, strings with escapes, "
             "comments, verbatim); TLC checks CursorExact/PositionExact (incremental line/column bookkeeping = declarative position) in "
             "every state; every token's and every lexer error's line/column of the real lexer must equal the specification's.",
        exhaustive=True)


def replay(doc):
    return lexcommon.replay_one(PID, doc, KINDS)
