"""C10 Inheritance: the most-derived block wins, Super reaches the parent (PongoInherit.tla)."""
import json

from common import *  # noqa

PID = "C10"


def check(tier):
    rep = Reporter(PID, tier)
    pvh = build_harness()
    quick = tier == "quick"
    for cfg in (["MC_PongoInherit_d1.cfg", "MC_PongoInherit_d2q.cfg", "MC_PongoInherit_d3q.cfg"] if quick else ["MC_PongoInherit_d1.cfg", "MC_PongoInherit_d2.cfg", "MC_PongoInherit_d3.cfg"]):
        lines = []
        res = run_tlc("MC_PongoInherit", cfg, timeout=3000, deadlock=False, vector_sink=lambda o: lines.append(json.dumps(o)))
        require_model_ok(res, cfg)         # ParentUnaffected and OutsideIgnored hold for the definition
        rep.add_tlc(cfg, res)
        r = run_harness(pvh, ["c10-replay"], stdin_text="\n".join(lines) + "\n", timeout=3000)
        for v in r["violations"]:
            rep.violation(v["key"], v["detail"])
        rep.cov["evaluations"] += r["checked"]
        rep.cov["distinct_nontrivial"] += r["distinct"]
        rep.cov["traces_validated_against_impl"] += r["checked"]
        for s in r["samples"][:2]:
            rep.sample(s)
        # chains whose blocks contain each other without end: each in a process of its own, must end in an error
        cyc = [l for l in lines if "CYCLE" in l]
        step = max(1, len(cyc) // (60 if quick else 400))
        cyc = cyc[::step]
        if cyc:
            r = run_harness(pvh, ["render-isolated", "c10-replay"], stdin_text="\n".join(cyc) + "\n", timeout=3000,
                            env_extra={"C10_CYCLIC": "1"})
            for v in r["violations"]:
                rep.violation(v["key"], v["detail"])
            rep.extra["cyclic_chains_run_isolated"] = rep.extra.get("cyclic_chains_run_isolated", 0) + r["checked"]
    r = run_harness(pvh, ["c10-invalid"])
    for v in r["violations"]:
        rep.violation(v["key"], v["detail"])
    rep.cov["evaluations"] += r["checked"]
    rep.extra["invalid_shapes"] = r["checked"]
    rep.assumptions += ["block bodies are built from text, block.Super, and nested block definitions (directly, in an if, in a for)",
                        "chains in which block definitions of different levels contain each other have no finite rendering; they must end in an "
                        "execution error and are run in isolated processes"]
    return rep.finish(
        rule="every chain of depth 1 (quick) / 1..3 (thorough) over two block names with 7 definition shapes per (level, block) - absent, text, "
             "text+Super, Super twice, nested other block then Super, other block in an if, other block in a for + Super - base document "
             "with blocks plain / in an if / in a for, junk text outside blocks at every level; every template of every chain is compiled "
             "and rendered and must equal Render(chain, k); TLC checks ParentUnaffected and OutsideIgnored on the definition; 14 invalid shapes.",
        exhaustive=True)


def replay(doc):
    pvh = build_harness()
    r = run_harness(pvh, ["c10-replay"], stdin_text=json.dumps(doc["detail"]["vector"]) + "\n")
    for v in r["violations"][:5]:
        print("VIOLATION property=%s replay=-" % PID)
        print("  " + v["key"][:400])
    return 1 if r["violations"] else 0
