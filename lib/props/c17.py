"""C17 Escaping filters neutralise exactly what they promise and lose nothing (PongoFilters.tla, escaping part)."""
from common import *  # noqa
import filtercommon

PID = "C17"


def check(tier):
    rep = Reporter(PID, tier)
    pvh = build_harness()
    deep = None if tier == "quick" else {"escape": 5, "addslashes": 6, "escapejs": 4, "urlencode": 4, "tags": 6}
    filtercommon.filter_replay(rep, pvh, ["escape", "addslashes", "escapejs", "urlencode", "tags", "tagcase"], deep)
    r = run_harness(pvh, ["c17-sweep"], timeout=3000)
    for v in r["violations"]:
        rep.violation(v["key"], v["detail"])
    rep.cov["evaluations"] += r["checked"]
    rep.extra["bmp_sweep_cases"] = r["checked"]
    for s in r["samples"][:1]:
        rep.sample(s)
    rep.assumptions += ["escapejs: the two characters backslash + r / n become the escapes of CR / LF (pinned by pongo2's fixture): modelled as a named "
                        "deviation and kept out of the decode round-trip; invalid UTF-8 bytes are dropped",
                        "removetags: pongo2 accepts one-letter tag names only; striptags: an unclosed '<' stays",
                        "above the BMP: sampled (3 code points), not exhaustive"]
    return rep.finish(
        rule="all strings up to length 4/5/3/3/5 (quick; one longer in thorough) over per-filter alphabets of special and representative "
             "characters for escape, addslashes, escapejs, urlencode+iriencode, striptags+removetags; TLC checks the round-trip and "
             "no-dangerous-character invariants on the reference definitions (EscapeDecodes, EscapeNoDangerous, AddSlashesOnlyNamed, "
             "JsOnlySafe, NoCompleteTag); every string is replayed through ApplyFilter and the template syntax; the character-class rules are "
             "then concretised over every rune of the BMP alone and next to 6 special characters (13 windows x 6 filters per rune).",
        exhaustive=True)


def replay(doc):
    return filtercommon.replay_one(PID, doc)
