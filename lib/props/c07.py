"""C07 Expressions evaluate according to the documented C-like semantics (PongoExpr.tla)."""
import json

from common import *  # noqa

PID = "C07"


def check(tier):
    rep = Reporter(PID, tier)
    pvh = build_harness()
    fams = ["n2swap", "n2left", "cmp", "logic", "str", "pow"] + ([] if tier == "quick" else ["n2", "n3"])
    pruned = 0
    for fam in fams:
        lines = []
        cfg = "MC_PongoExpr_%s.cfg" % fam
        res = run_tlc("MC_PongoExpr", cfg, timeout=3000, deadlock=False, vector_sink=lambda o: lines.append(json.dumps(o)))
        require_model_ok(res, cfg)          # PrinterUnambiguous (Reparse) and ShortCircuit hold on the model
        rep.add_tlc(cfg, res)
        r = run_harness(pvh, ["expr-replay"], stdin_text="\n".join(lines) + "\n", timeout=3000)
        for v in r["violations"]:
            rep.violation(v["key"], v["detail"])
        rep.cov["evaluations"] += r["checked"]
        rep.cov["distinct_nontrivial"] += r["distinct"]
        rep.cov["traces_validated_against_impl"] += r["checked"]
        pruned += r["skipped"]
        for s in r["samples"][:2]:
            rep.sample(s)
    rep.extra["pruned_out_of_model_range"] = pruned
    rep.assumptions += ["the uncontroversial fragment of the statement: no unparenthesised and/or mix, no chained comparison, no cross-type equality, "
                        "no ordering of strings, `not` on boolean operands only, integer exponents 0..5",
                        "floats are exact rationals in the model; an exact tie at the seventh decimal is accepted either way; IEEE -0 equals 0",
                        "trees whose intermediate values leave +-30000 (TLC's 32-bit integers) are pruned and counted, never passed"]
    return rep.finish(
        rule="all trees op(X, Y) with X, Y of depth <=1 (leaf, negated leaf, binary) over 7 numeric literals and the six arithmetic operators "
             "(quick: one side a (negated) leaf; thorough: the full product, 3.9e5 trees, and depth 3 over a reduced alphabet), all "
             "comparisons of such trees, and/or/not over 8 conditions incl. a failing one in both nestings, string concatenation / equality / "
             "membership; TLC checks on the model that the minimal-parenthesis printer re-parses to the same tree (Reparse) and that a "
             "deciding left operand hides the right one (ShortCircuit); the harness writes the tokens with random spacing and operator "
             "spellings and compares {{ e }} and {% if e %} with the canonical form of the specification's value.",
        exhaustive=True)


def replay(doc):
    pvh = build_harness()
    r = run_harness(pvh, ["expr-replay"], stdin_text=json.dumps(doc["detail"]["vector"]) + "\n")
    for v in r["violations"][:5]:
        print("VIOLATION property=%s replay=-" % PID)
        print("  " + v["key"][:400])
    return 1 if r["violations"] else 0
