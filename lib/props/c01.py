"""C01 Totality: compiling and executing never panics, crashes or hangs (PongoApi.tla)."""
import json
import os
import re

from common import *  # noqa

PID = "C01"


def validate_api_trace(rep, text, label):
    # the trace spec has no action for Panic / Died / Hang
    lines = [l for l in text.splitlines() if l.strip()]
    bad = [l for l in lines if re.search(r'"ev":"(Panic|Died|Hang)"', l)]
    res = run_tlc("Trace_PongoApi", "Trace_PongoApi.cfg", workers=1, timeout=1800,
                  extra_files={"trace_api.ndjson": "\n".join(lines) + "\n"}, deadlock=False)
    rep.add_tlc("Trace_PongoApi:" + label, res)
    if res.ok:
        if bad:
            raise MachineryError("trace with Panic/Died/Hang events was accepted")
        return True
    if "TRACE-REJECTED" in (res.raw_tail + res.errtext):
        return False
    raise MachineryError("API trace validation gave no verdict:\n" + res.errtext[:1500] + res.raw_tail[-1500:])


def check(tier):
    rep = Reporter(PID, tier)
    quick = tier == "quick"
    pvh = build_harness()
    res = run_tlc("MC_PongoApi", "MC_PongoApi_machine.cfg", timeout=300, deadlock=False, keep_vectors=False)
    require_model_ok(res, "API machine")
    rep.add_tlc("MC_PongoApi_machine.cfg", res)
    reg = run_harness(pvh, ["registry"])["extra"]
    names = run_harness(pvh, ["c01-names"])["extra"]["names"]
    q = lambda xs: ", ".join('"%s"' % x for x in xs)
    cfg = ("INIT Init\nNEXT Next\nCONSTANTS\n  RegTags = {%s}\n  RegFilters = {%s}\n  CtxNames = {%s}\n  Budget = %d\n  CrossFamily = \"none\"\nINVARIANTS Emit\n"
           % (q(reg["tags"]), q(reg["filters"]), q(names), 30 if quick else 45))
    lines = []
    res = run_tlc("MC_PongoApi", "gen.cfg", timeout=3000, deadlock=False, simulate=(120 if quick else 4000), depth=200,
                  extra_files={"gen.cfg": cfg}, vector_sink=lambda o: lines.append(json.dumps(o)))
    require_model_ok(res, "grammar simulation")
    rep.add_tlc("MC_PongoApi grammar simulation (seed %d)" % seed(), res)
    # the systematic cross product: operators x value pairs, filters x values x parameters, constructs x values
    for fam in ["ops", "filters", "constructs", "names", "recursion"]:
        ccfg = ("INIT %s\nNEXT CrossNext\nCONSTANTS\n  RegTags = {%s}\n  RegFilters = {%s}\n  CtxNames = {%s}\n  Budget = 0\n  CrossFamily = \"%s\"\nINVARIANTS CrossEmit\n"
                % ("CrossInitNames" if fam == "names" else "CrossInit", q(reg["tags"]), q(reg["filters"]), q(names), fam))
        res = run_tlc("MC_PongoApi", "cross.cfg", timeout=3000, deadlock=False, extra_files={"cross.cfg": ccfg},
                      vector_sink=lambda o: lines.append(json.dumps(o)))
        require_model_ok(res, "cross " + fam)
        rep.add_tlc("MC_PongoApi cross product: " + fam, res)
    # plus every byte string of the lexer's exhaustive configurations
    for cfgname in (["MC_PongoLexer_text_q.cfg", "MC_PongoLexer_code_q.cfg"] if quick else ["MC_PongoLexer_text_t.cfg", "MC_PongoLexer_code_q.cfg", "MC_PongoLexer_mixed_q.cfg"]):
        res = run_tlc("MC_PongoLexer", cfgname, timeout=3000, deadlock=False,
                      vector_sink=lambda o: lines.append(json.dumps({"src": o["src"]})))
        require_model_ok(res, cfgname)
        rep.add_tlc(cfgname + " (byte strings)", res)
    tf = os.path.join(BUILD, "trace_api.ndjson")
    r = run_harness(pvh, ["c01-run", tf], stdin_text="\n".join(lines) + "\n", timeout=3000)
    for v in r["violations"]:
        rep.violation(v["key"], v["detail"])
    text = open(tf).read()
    os.unlink(tf)
    accepted = validate_api_trace(rep, text, "worker log")
    if not accepted and not r["violations"]:
        raise MachineryError("trace rejected but the parent saw no panic / death / hang")
    rep.cov["evaluations"] = r["checked"] * 3
    rep.cov["distinct_nontrivial"] = r["distinct"]
    rep.cov["traces_validated_against_impl"] = r["checked"]
    rep.extra["api_events_validated"] = text.count("\n")
    rep.extra["registry"] = {"tags": len(reg["tags"]), "filters": len(reg["filters"]), "context_names": len(names)}
    for s in r["samples"][:4]:
        rep.sample(s)
    rep.assumptions += ["the oracle is 'no bad event'; strength comes from the breadth of generated programs x values (and from every other "
                        "check, which runs its own programs under panic recovery)",
                        "a per-program deadline of 8 s stands for 'bounded time'",
                        "functions and Stringers of the value universe are total"]
    return rep.finish(
        rule="TLC simulation of the surface grammar (every registered tag in 7 generic shapes + 37 built-in shapes, every registered filter with "
             "and without arguments, all operators, 23 ill-formed pieces, literals incl. overflowing numbers) to budget 30 (quick) / 45 "
             "(thorough) expansions, plus every byte string of the exhaustive lexer configurations; each distinct source is compiled and executed "
             "with three contexts (catalogue values; the same names bound to NaN/Inf/extreme integers/invalid UTF-8/nil values/arrays/odd map "
             "key types/Stringers/time; nil) in an isolated worker with a lowered stack limit and an 8 s deadline; the worker's outcome log is "
             "validated by Trace_PongoApi, which has no action for Panic, Died or Hang.",
        exhaustive=False)


def replay(doc):
    pvh = build_harness()
    src = doc["detail"]["src"]
    tf = os.path.join(BUILD, "trace_api_replay.ndjson")
    r = run_harness(pvh, ["c01-run", tf], stdin_text=json.dumps({"src": list(src.encode("utf-8", "surrogateescape"))}) + "\n")
    for v in r["violations"][:5]:
        print("VIOLATION property=%s replay=-" % PID)
        print("  " + v["key"][:400])
    return 1 if r["violations"] else 0
