"""C12 Scoping: bindings stay in their construct; caller data is never modified (PongoRender.tla environment part)."""
from common import *  # noqa
import rendercommon

PID = "C12"


def check(tier):
    rep = Reporter(PID, tier)
    pvh = build_harness()
    cfgs = ["MC_RenderC12_d2.cfg", "MC_RenderC12_api.cfg", "MC_RenderC12_d3.cfg"]
    rendercommon.render_replay(rep, pvh, "MC_RenderC12", cfgs)
    rep.assumptions += ["a macro body runs in a child of the scope the macro was defined in (as that scope is at call time)",
                        "a loop has one scope for all its iterations"]
    return rep.finish(
        rule="every nesting to depth 2 (quick) / 3 (thorough) of 19 constructs (with in four binding shapes, for over either name, macro with "
             "and without a parameter of the colliding name, macros called with parameters left out whose names collide with context keys, globals and tag-set names, if, set of either name, include with pairs / with only, autoescape, filter tag, "
             "ifchanged, else-branch) over the colliding names a, b with a probe of a, b, a global and a context-overridden global before, "
             "inside and after every construct, four innermost variants (probe, set, chained set, call of a top-level macro); the caller's "
             "Context and the set's Globals are deep-compared before/after every execution; invalid context keys and macro clashes.",
        exhaustive=True)


def replay(doc):
    return rendercommon.replay_one(PID, doc)
