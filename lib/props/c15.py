"""C15 Whitespace control removes exactly the whitespace it names (PongoLexer.tla trim flags, PongoDoc.tla, spaceless)."""
from common import *  # noqa
import lexcommon

PID = "C15"
KINDS = {"trim", "ws", "spaceless", "ctl"}


def check(tier):
    rep = Reporter(PID, tier)
    pvh = build_harness()
    q = tier == "quick"
    n = lexcommon.lex_replay(rep, pvh, ["MC_PongoDoc_q.cfg"] if q else ["MC_PongoDoc_t.cfg"], KINDS,
                             module="MC_PongoDoc", cmd="doc-replay")
    n += lexcommon.lex_replay(rep, pvh, ["MC_PongoLexer_code_q.cfg"], KINDS)
    import filtercommon
    filtercommon.filter_replay(rep, pvh, ["spaceless"], None if q else {"spaceless": 7})
    # spaceless as a construct among constructs (PongoRender): nested in, around and next to blocks that capture their body
    import rendercommon
    rendercommon.render_replay(rep, pvh, "MC_RenderC12", ["MC_RenderC12_sp.cfg"])
    rep.cov["traces_validated_against_impl"] += n
    rep.assumptions += ["comments and verbatim blocks are kept away from trimming constructs (the statement does not settle those placements)"]
    return rep.finish(
        rule="every well-formed fragment document up to the bound (whitespace runs of space/tab/CR/LF mixes, text, {{ v }}, block tags, "
             "every subset of the four '-' positions per construct) x the four TrimBlocks/LStripBlocks settings; TLC checks that the "
             "fragment-level definition (which whitespace each marker names) and the token-level definition agree (AgreeAtEnd); the "
             "marked source and the hand-stripped source are both rendered by the real engine and must equal the specification's output.",
        exhaustive=True)


def replay(doc):
    return lexcommon.replay_one(PID, doc, KINDS)
