"""C09 Branching and looping tags follow their reference semantics (PongoRender.tla)."""
from common import *  # noqa
import rendercommon

PID = "C09"


def check(tier):
    rep = Reporter(PID, tier)
    pvh = build_harness()
    cfgs = ["MC_RenderC09_q.cfg", "MC_RenderC09_elif.cfg", "MC_RenderC09_elifloop.cfg", "MC_RenderC09_forfor.cfg",
            "MC_RenderC09_for3.cfg", "MC_RenderC09_elif3.cfg", "MC_RenderC09_stale.cfg"]
    if tier != "quick":
        cfgs.append("MC_RenderC09_t.cfg")
    rendercommon.render_replay(rep, pvh, "MC_RenderC09", cfgs)
    rep.assumptions += ["maps are iterated with `sorted` only (Go's map order is random otherwise)",
                        "ifchanged/cycle are generated where 'previous iteration' has one reading (state lives in one render, keyed by the tag occurrence)"]
    return rep.finish(
        rule="every nesting to depth 1 (quick) / 2 (thorough) of if/else, for (+empty, reversed, sorted, key/value) around every leaf "
             "(loop variable, the seven forloop fields incl. Parentloop, cycle, ifchanged with and without watched value, firstof, ifequal, "
             "ifnotequal), all elif chains over 13 conditions, over lists/strings/maps/scalars of length 0..3; PongoRender predicts output "
             "and the event sequence (scope pushes, iterations idx/count, writes); the real engine must produce both. One program = one case.",
        exhaustive=True)


def replay(doc):
    return rendercommon.replay_one(PID, doc)
