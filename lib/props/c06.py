"""C06 Literal text, verbatim blocks and comments are reproduced exactly (PongoLexer.tla, PongoDoc.tla)."""
from common import *  # noqa
import lexcommon

PID = "C06"
KINDS = {"tokens", "text", "ctl"}


def check(tier):
    rep = Reporter(PID, tier)
    pvh = build_harness()
    q = tier == "quick"
    n = lexcommon.lex_replay(rep, pvh, ["MC_PongoLexer_text_q.cfg", "MC_PongoLexer_mixed_q.cfg"] if q else
                             ["MC_PongoLexer_text_t.cfg", "MC_PongoLexer_mixed_t.cfg", "MC_PongoLexer_code_q.cfg"], KINDS)
    n += lexcommon.lex_replay(rep, pvh, ["MC_PongoDoc_plain_q.cfg", "MC_PongoDoc_ctl.cfg"] if q else ["MC_PongoDoc_plain_t.cfg", "MC_PongoDoc_ctl.cfg"], KINDS,
                              module="MC_PongoDoc", cmd="doc-replay")
    n += lexcommon.fixture_traces(rep, pvh, KINDS)
    rep.cov["traces_validated_against_impl"] += n
    rep.assumptions += ["comments and verbatim blocks are generated next to non-whitespace text or the document boundary",
                        "byte-level model: columns and spans are counted in bytes"]
    return rep.finish(
        rule="TLC enumerates every symbol string up to the bound over the lexer-significant alphabets (bytes incl. control bytes, "
             "invalid UTF-8, lone braces, macro symbols for verbatim/comment/variable) and every well-formed fragment document up "
             "to the bound; invariants Coverage, HtmlExact, NoDelimIdentity, VerbatimLiteral, TokensOrdered, AgreeAtEnd hold in "
             "every state; each terminal state is replayed: the real lexer's token list and the rendered output must equal the "
             "specification's. Each source is one distinct case.", exhaustive=True)


def replay(doc):
    return lexcommon.replay_one(PID, doc, KINDS)
