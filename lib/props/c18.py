"""C18 Built-in data filters match their Django/Python reference semantics (PongoFilters.tla, data part)."""
from common import *  # noqa
import filtercommon

PID = "C18"


def check(tier):
    rep = Reporter(PID, tier)
    pvh = build_harness()
    filtercommon.filter_replay(rep, pvh, ["slice", "pad", "trunc", "seq", "num", "widthratio", "float", "fmt", "strnum", "words"])
    rep.assumptions += ["numbers with a fractional part are modelled as thousandths; floatformat inputs that are an exact decimal tie but not exact in "
                        "binary (1.005 at two places) have no settled rounding and are not generated; exact ties (multiples of 1/8) round to even, "
                        "as strconv does (Django rounds half up: pongo2's own behaviour is the reference here)",
                        "stringformat is modelled for the verbs %d %s %v with width and the '-' and '0' flags and literal text around them; date / time "
                        "for two instants and layouts made of Go reference-time tokens; other verbs and layouts reach fmt / time unchanged",
                        "where pongo2's fixtures pin a deviation from Django (add concatenates, center puts the odd space left, wordwrap counts "
                        "words, get_digit on non-numbers) the reference follows the fixture or the input is not generated",
                        "widthratio: an exact half may round either way"]
    return rep.finish(
        rule="slice: bounds (-8..8 or omitted)^2 x lengths 0..6 x {string with multi-byte characters, list}; center/ljust/rjust: widths 0..20 x "
             "lengths 0..12; truncatechars -1..14 x 0..12; truncatewords/wordwrap -1..6 x 8 texts; first/last/length/length_is/join/make_list/"
             "cut/split/wordcount/linenumbers/linebreaksbr/capfirst/upper/lower over 8 texts and 7 sequences; add/default/default_if_none over "
             "15^2 value pairs, divisibleby -12..24 x -4..6, get_digit, pluralize, yesno with every argument shape; widthratio 0..12 x 1..12 x "
             "{7, 10, 100}; floatformat over every multiple of 1/8 in -3..3 and 23 boundary values x 17 arguments (none, -4..5, 1001, numeric and "
             "non-numeric text), integer / float conversions; stringformat (2 x 2 literal contexts x 3 flags x 4 widths x 3 verbs x 8 values); "
             "date / time (2 instants x 8 layouts, and every non-time input: an error). TLC checks shape invariants (contiguous subsequence, padding only with spaces on the stated side, length bounds); "
             "every case is replayed through ApplyFilter and through the template syntax.",
        exhaustive=True)


def replay(doc):
    return filtercommon.replay_one(PID, doc)
