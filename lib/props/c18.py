"""C18 Built-in data filters match their Django/Python reference semantics (PongoFilters.tla, data part)."""
from common import *  # noqa
import filtercommon

PID = "C18"


def check(tier):
    rep = Reporter(PID, tier)
    pvh = build_harness()
    filtercommon.filter_replay(rep, pvh, ["slice", "pad", "trunc", "seq", "num", "widthratio"])
    rep.assumptions += ["date / time / stringformat hand their argument to Go's time.Format / fmt.Sprintf and floatformat / float to IEEE "
                        "formatting: outside TLA+'s vocabulary, exercised under C01/C19 only",
                        "where pongo2's fixtures pin a deviation from Django (add concatenates, center puts the odd space left, wordwrap counts "
                        "words, get_digit on non-numbers) the reference follows the fixture or the input is not generated",
                        "widthratio: an exact half may round either way"]
    return rep.finish(
        rule="slice: bounds (-8..8 or omitted)^2 x lengths 0..6 x {string with multi-byte characters, list}; center/ljust/rjust: widths 0..20 x "
             "lengths 0..12; truncatechars -1..14 x 0..12; truncatewords/wordwrap -1..6 x 8 texts; first/last/length/length_is/join/make_list/"
             "cut/split/wordcount/linenumbers/linebreaksbr/capfirst/upper/lower over 8 texts and 7 sequences; add/default/default_if_none over "
             "15^2 value pairs, divisibleby -12..24 x -4..6, get_digit, pluralize, yesno with every argument shape; widthratio 0..12 x 1..12 x "
             "{7, 10, 100}. TLC checks shape invariants (contiguous subsequence, padding only with spaces on the stated side, length bounds); "
             "every case is replayed through ApplyFilter and through the template syntax.",
        exhaustive=True)


def replay(doc):
    return filtercommon.replay_one(PID, doc)
