"""C08 Names resolve through maps, sequences, structs, pointers, methods, calls (PongoResolve.tla)."""
import json

from common import *  # noqa

PID = "C08"


def check(tier):
    rep = Reporter(PID, tier)
    pvh = build_harness()
    lines = []
    cfg = "MC_PongoResolve.cfg" if tier == "quick" else "MC_PongoResolve_deep.cfg"      # (thorough: also plain paths of length 3)
    res = run_tlc("MC_PongoResolve", cfg, timeout=3000, deadlock=False, vector_sink=lambda o: lines.append(json.dumps(o)))
    require_model_ok(res, cfg)       # NeverStuck: the rule set is total
    rep.add_tlc(cfg, res)
    r = run_harness(pvh, ["resolve-replay"], stdin_text="\n".join(lines) + "\n", timeout=3000)
    for v in r["violations"]:
        rep.violation(v["key"], v["detail"])
    rep.cov["evaluations"] = r["checked"]
    rep.cov["distinct_nontrivial"] = r["distinct"]
    rep.cov["traces_validated_against_impl"] = r["checked"]
    rep.extra["skipped_positions_inside_strings"] = r["skipped"]
    for s in r["samples"][:4]:
        rep.sample(s)
    # shadowing: tag-set names over the caller's context over the globals (decided with PongoRender's environment, see C12)
    rep.assumptions += ["a subscript is generated only as the last step of a name (the grammar admits nothing after it)",
                        "positions inside a string (s.0, s[1]) are not settled by the statement and are skipped (counted)",
                        "shadowing of context keys by tag-set names and of globals by context keys is replayed under C12 (probe g / gg, loop and with variables)",
                        "catalogue functions are total; a call on a value that is not a function is an error, also when the value is a nil pointer"]
    return rep.finish(
        rule="a catalogue of 18 roots (string- and int-keyed maps, slice, non-addressable array, struct with exported / unexported / nil / "
             "pointer / func fields and value- and pointer-receiver methods, pointer, nil pointer, scalars, an undefined name, functions of "
             "every accepted signature shape: variadic, (T, error), *Value parameter, implicit *ExecutionContext, nil result) x all paths of "
             "length 0..2 over 30 steps (names valid and invalid, indexes in and out of range, subscripts of every key type) x calls with 7 "
             "argument lists on roots, methods, fields; TLC checks NeverStuck; {{ path }}, {% if path %} and {{ path|length }} of the real "
             "engine must show the specification's outcome (value / empty / execution error), never a panic.",
        exhaustive=True)


def replay(doc):
    pvh = build_harness()
    r = run_harness(pvh, ["resolve-replay"], stdin_text=json.dumps(doc["detail"]["vector"]) + "\n")
    for v in r["violations"][:5]:
        print("VIOLATION property=%s replay=-" % PID)
        print("  " + v["key"][:400])
    return 1 if r["violations"] else 0
