"""C05 One compiled template can be executed from many goroutines at once (PongoExec.tla thread part, PongoSet.tla)."""
import json
import os

from common import *  # noqa
import execcommon
from props import c20

PID = "C05"


def check(tier):
    rep = Reporter(PID, tier)
    quick = tier == "quick"
    pvh = build_harness()
    pvhr = build_harness(race=True)
    # every interleaving of two executions of the abstract model: Isolation, CompiledImmutable
    res = run_tlc("MC_PongoExec", "MC_PongoExec_threads.cfg", timeout=1800, deadlock=False, keep_vectors=False)
    require_model_ok(res, "MC_PongoExec_threads.cfg")
    rep.add_tlc("MC_PongoExec_threads.cfg", res)
    sched = []
    cfg = "MC_PongoSched_q.cfg" if quick else "MC_PongoSched_t.cfg"
    res = run_tlc("PongoSched", cfg, timeout=600, deadlock=False, vector_sink=lambda o: sched.append(json.dumps(o)))
    require_model_ok(res, cfg)
    rep.add_tlc(cfg, res)
    path, nprog = execcommon.corpus(rep, quick)
    # (a) forced schedules through the gate hook
    r = run_harness(pvh, ["c05-forced", path, "2" if quick else "12"], stdin_text="\n".join(sched) + "\n", timeout=3000)
    if r["extra"].get("stuck"):
        raise MachineryError("forced schedule: a gate was not reached within the deadline (%s)" % r["extra"])
    for v in r["violations"]:
        rep.violation(v["key"], v["detail"])
    rep.cov["evaluations"] += r["checked"]
    rep.cov["distinct_nontrivial"] += r["distinct"]
    rep.extra["forced_schedule_runs"] = r["checked"]
    for s in r["samples"][:2]:
        rep.sample(s)
    # (b) free-running under the race detector
    nfree = 0
    for k, procs in ([(4, None), (16, "2")] if quick else [(2, None), (4, "1"), (4, None), (16, "2"), (16, None)]):
        rl = os.path.join(BUILD, "race_c05")
        env = {"GORACE": "log_path=%s exitcode=0" % rl}
        if procs:
            env["GOMAXPROCS"] = procs
        r = run_harness(pvhr, ["c05-free", path, str(k), "150" if quick else "1500"], env_extra=env, timeout=3000)
        for v in r["violations"]:
            rep.violation(v["key"], v["detail"])
        for blk in c20.race_reports(rl):
            rep.violation(c20.race_key(blk), {"race": blk[:4000], "cmd": "c05-free k=%d" % k})
        nfree += r["checked"]
        rep.cov["evaluations"] += r["checked"]
        for s in r["samples"][:1]:
            rep.sample(s)
    os.unlink(path)
    rep.extra["free_running_race_runs"] = nfree
    rep.cov["traces_validated_against_impl"] = rep.extra["forced_schedule_runs"]
    rep.assumptions += ["forced schedules interleave at node granularity (one gate before every document-level node)",
                        "memory-level races are observed by Go's race detector in free-running executions, not derived from the model",
                        "the static every-write-reachable clause is not decided by this family",
                        "the concurrent cache traces are validated under C20 (Trace_PongoSet)"]
    return rep.finish(
        rule="PongoExec.tla thread configuration: every interleaving of two executions (with include, faults, all entry points) satisfies "
             "Isolation and CompiledImmutable; PongoSched enumerates all 2^8 (quick) / 2^12 (thorough) priority schedules; each program of the "
             "corpus is executed by two goroutines with different contexts under schedules forced through the gate hook: every thread must "
             "return what it returns alone and the template digest must never change; the same programs run gate-free with 2-16 goroutines "
             "under -race together with FromCache / FromString / lazy include on the shared set.",
        exhaustive=False)


def replay(doc):
    return check("quick")
