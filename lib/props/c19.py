"""C19 Filters are applied in written order, everywhere filters can be written (PongoRender.tla filter part, PongoRegistry.tla)."""
import json

from common import *  # noqa
import rendercommon

PID = "C19"


def registry_cfg(pvh, family, name):
    reg = run_harness(pvh, ["registry"])["extra"]
    filters = [f for f in reg["filters"] if f != "random"]
    text = ("INIT Init\nNEXT Next\nCONSTANTS\n  Family = \"%s\"\n  MaxChain = 2\n  RegFilters = {%s}\nINVARIANTS Balanced EmitVec\n"
            % (family, ", ".join('"%s"' % f for f in filters)))
    return {name: text}, len(filters)


def check(tier):
    rep = Reporter(PID, tier)
    pvh = build_harness()
    quick = tier == "quick"
    rendercommon.render_replay(rep, pvh, "MC_RenderC19", ["MC_RenderC19_pos2.cfg" if quick else "MC_RenderC19_pos3.cfg", "MC_RenderC19_arrparam.cfg", "MC_RenderC19_neg.cfg", "MC_RenderC19_rec.cfg", "MC_RenderC19_nestparam.cfg"])
    for fam in (["sym1", "sym2tag"] if quick else ["sym1", "sym2tag", "sym2"]):
        extra, nf = registry_cfg(pvh, fam, "MC_RenderC19_%s.cfg" % fam)
        rep.extra["registered_filters"] = nf
        rendercommon.render_replay(rep, pvh, "MC_RenderC19", ["MC_RenderC19_%s.cfg" % fam], extra_files=extra)
    rendercommon.registry_histories(rep, pvh)
    rep.assumptions += ["`random` is excluded (non-deterministic)", "symbolic filter results are concretised with the public ApplyFilter (the property's own equivalence)"]
    return rep.finish(
        rule="chains of length 0..2 (quick) / 0..3 (thorough) over 11 defined filter applications (literal, variable and path arguments) at 18 "
             "positions (output, if, for, with, set, macro argument and default, array item, subscript, include pair, cycle, firstof, ifequal, "
             "ifchanged, filter tag, operand, and with the argument name rebound by with / for); every registered filter alone with 3 argument "
             "shapes on 3 input kinds and (thorough) every ordered pair, in expressions and in the filter tag; registry histories of length <=3.",
        exhaustive=True)


def replay(doc):
    return rendercommon.replay_one(PID, doc)
