"""C14 Execute variants agree; ExecuteWriter is all-or-nothing (PongoExec.tla writer part)."""
import json

from common import *  # noqa

PID = "C14"


def check(tier):
    rep = Reporter(PID, tier)
    pvh = build_harness()
    lines = []
    cfgs = ["MC_PongoExec_w0.cfg", "MC_PongoExec_w2.cfg"] + ([] if tier == "quick" else ["MC_PongoExec_w5.cfg", "MC_PongoExec_w5i.cfg"])
    for cfg in cfgs:
        res = run_tlc("MC_PongoExec", cfg, timeout=1800, deadlock=False, vector_sink=lambda o: lines.append(json.dumps(o)))
        require_model_ok(res, cfg)
        rep.add_tlc(cfg, res)
    r = run_harness(pvh, ["c14-replay"], stdin_text="\n".join(lines) + "\n", timeout=1800)
    for v in r["violations"]:
        rep.violation(v["key"], v["detail"])
    rep.cov["evaluations"] = r["checked"]
    rep.cov["distinct_nontrivial"] = r["distinct"]
    rep.cov["traces_validated_against_impl"] = r["checked"]
    for s in r["samples"][:3]:
        rep.sample(s)
    rep.assumptions += ["every node writes once (variable nodes), so 'the w-th write' of the unbuffered variant is the w-th node",
                        "the unbuffered variant ignores its writer's errors except at an include (modelled as observed)"]
    return rep.finish(
        rule="PongoExec.tla: programs of 3 (quick) / 5 (thorough) writing nodes, with and without a nested include, every position k at which a "
             "node fails (including inside the include), every position w from which the caller's writer refuses, the four entry points; TLC "
             "checks Agree, SuccessIsFull, AllOrNothing, PrefixOnly, WriterErrorReturned, IncludeAtomic; every combination is replayed with "
             "failing catalogue functions and a recording/failing writer; returned text, error class and received bytes must match.",
        exhaustive=True)


def replay(doc):
    pvh = build_harness()
    r = run_harness(pvh, ["c14-replay"], stdin_text=json.dumps(doc["detail"]["vector"]) + "\n")
    for v in r["violations"][:5]:
        print("VIOLATION property=%s replay=-" % PID)
        print("  " + v["key"][:400])
    return 1 if r["violations"] else 0
