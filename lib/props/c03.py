"""C03 Sandbox: a banned tag or filter cannot be used by any route (PongoSet.tla ban part + PongoRoutes.tla)."""
import json

from common import *  # noqa

PID = "C03"


def check(tier):
    rep = Reporter(PID, tier)
    quick = tier == "quick"
    pvh = build_harness()

    # histories over {BanTag, BanFilter, compile entry points} on two sets: invariants on the model + replay
    lines = []
    cfg = "MC_PongoSet_ban_inv.cfg" if quick else "MC_PongoSet_ban_inv4.cfg"
    res = run_tlc("MC_PongoSet", cfg, timeout=3000, deadlock=False, vector_sink=lambda o: lines.append(json.dumps(o)))
    require_model_ok(res, cfg)
    rep.add_tlc(cfg, res)
    r = run_harness(pvh, ["c03-hist"], stdin_text="\n".join(lines) + "\n", timeout=3000)
    for v in r["violations"]:
        rep.violation(v["key"], v["detail"])
    rep.cov["evaluations"] += r["checked"]
    rep.cov["distinct_nontrivial"] += r["distinct"]
    rep.extra["histories_replayed"] = r["checked"]
    for s in r["samples"][:1]:
        rep.sample({"history": s})
    del lines[:]

    # routes x registry
    res = run_tlc("PongoRoutes", "MC_PongoRoutes.cfg", timeout=600, deadlock=False,
                  vector_sink=lambda o: lines.append(json.dumps(o)))
    require_model_ok(res, "PongoRoutes")
    rep.add_tlc("MC_PongoRoutes.cfg", res)
    r = run_harness(pvh, ["c03-routes"], stdin_text="\n".join(lines) + "\n", timeout=3000)
    for v in r["violations"]:
        rep.violation(v["key"], v["detail"])
    rep.cov["evaluations"] += r["checked"]
    rep.cov["distinct_nontrivial"] += r["distinct"]
    rep.extra["route_cases"] = r["checked"]
    rep.extra["route_ok_checks_skipped_fragile_or_unknown"] = r["skipped"]
    rep.extra["registry"] = r["extra"]
    for s in r["samples"][:2]:
        rep.sample(s)
    rep.cov["traces_validated_against_impl"] = rep.extra["histories_replayed"]
    rep.assumptions += [
        "for names that are not banned, 'keeps working' is only required of snippets the harness knows to be valid for that tag/filter",
    ]
    return rep.finish(
        rule="all ban/compile histories of the bounded PongoSet model (2 sets, 2 names + an unregistered one, length <=3 quick / <=4 "
             "thorough) replayed with result and set-state comparison after every step; every PongoRoutes vector (syntactic route x "
             "file route x ban status) instantiated with every registered tag/filter. A case is distinct by history resp. "
             "(vector, name).",
        exhaustive=True)


def replay(doc):
    d = doc["detail"] or {}
    pvh = build_harness()
    cmd = d.get("cmd", "c03-routes")
    r = run_harness(pvh, [cmd], stdin_text=json.dumps(d["vector"]) + "\n")
    bad = [v for v in r["violations"] if v["key"] == doc["key"]] or r["violations"]
    for v in bad[:5]:
        print("VIOLATION property=%s replay=-" % PID)
        print("  " + v["key"][:400])
    return 1 if bad else 0
