"""Shared driver for the PongoFilters.tla based checks (C17, C18, spaceless for C15)."""
import json

from common import *  # noqa


def filter_replay(rep, pvh, families, maxlen_override=None):
    for fam in families:
        lines = []
        cfg = "MC_PongoFilters_%s.cfg" % fam
        extra = None
        if maxlen_override and fam in maxlen_override:
            text = 'INIT Init\nNEXT Next\nCONSTANTS\n  Family = "%s"\n  MaxLen = %d\nINVARIANTS Shapes EmitVec\n' % (fam, maxlen_override[fam])
            cfg = "MC_PongoFilters_%s_deep.cfg" % fam
            extra = {cfg: text}
        res = run_tlc("MC_PongoFilters", cfg, timeout=3000, deadlock=False, extra_files=extra,
                      vector_sink=lambda o: lines.append(json.dumps(o)))
        require_model_ok(res, cfg)
        rep.add_tlc(cfg, res)
        r = run_harness(pvh, ["filter-replay"], stdin_text="\n".join(lines) + "\n", timeout=3000)
        for v in r["violations"]:
            rep.violation(v["key"], v["detail"])
        rep.cov["evaluations"] += r["checked"]
        rep.cov["distinct_nontrivial"] += r["distinct"]
        rep.cov["traces_validated_against_impl"] += r["checked"]
        for s in r["samples"][:1]:
            rep.sample(s)


def replay_one(pid, doc):
    pvh = build_harness()
    r = run_harness(pvh, ["filter-replay"], stdin_text=json.dumps(doc["detail"]["vector"]) + "\n")
    for v in r["violations"][:5]:
        print("VIOLATION property=%s replay=-" % pid)
        print("  " + v["key"][:400])
    return 1 if r["violations"] else 0
