#!/usr/bin/python3
"""Regenerates MANIFEST.json from the table below (single source of truth for what is claimed)."""
import json, os, subprocess
HERE = os.path.dirname(os.path.dirname(os.path.abspath(__file__)))

CHECKS = {
    "C20": dict(
        text="PongoSet.tla (cache part) is model-checked exhaustively for 2-3 threads (every interleaving of lock/lookup/load/store/"
             "clean/Debug/file change); TLC-generated schedules are forced onto the real TemplateSet through a gate before the mutex "
             "and free-running -race executions are validated event by event against the same actions (Trace_PongoSet). This is the "
             "right level because the property quantifies over schedules and histories, which only an explicit state machine enumerates.",
        note="Trusted: TLC, the gate/tracer hooks (events emitted under the cache mutex), the recording in-memory loader, Go's race detector. "
             "Model bounds: <=3 threads, <=2 sets, <=2 names; larger runs are validated as traces, not enumerated.",
        technique="TLA+ model checking (TLC) + forced-schedule replay + trace validation", ref="DESIGN.md §3 C20"),
}

CHECKS["C03"] = dict(
    text="PongoSet.tla (ban part) enumerates every history of BanTag/BanFilter/compile over two sets up to the bound and TLC checks "
         "FrozenAfterFirst, BansOnlyGrow, SetsIndependent, BanEffect, CompileVerdict on it; every history is replayed on real sets with "
         "result and projected state (ban lists, frozen flag) compared after every step. PongoRoutes.tla spans syntactic route x file "
         "route x ban status; each vector is instantiated with every name of the live tag/filter registries. Histories and routes are "
         "exactly the quantifiers of the property.",
    note="Trusted: TLC, VerifSetState projection hook, the harness's snippet table (valid use of each built-in tag/filter). "
         "'Keeps working' is asserted only for names with a known-valid snippet; 'fails when banned' for every registered name.",
    technique="TLA+ model checking (TLC) + exhaustive history replay + registry-driven route replay", ref="DESIGN.md §3 C03")

CHECKS["C06"] = dict(
    text="PongoLexer.tla is a small-step machine over source bytes with one action per lexer branch; TLC enumerates every symbol string "
         "up to the bound and checks Coverage (token and skipped spans tile the source), HtmlExact, NoDelimIdentity, VerbatimLiteral in every "
         "state; PongoDoc.tla defines the rendered output of fragment documents twice (declaratively on fragments, operationally on tokens) "
         "and TLC checks they agree. Every terminal state is replayed on the real lexer and engine, and the real lexer's token traces of "
         "the repository's own templates are validated by Trace_PongoLexer. 'All byte strings' is exactly what exhaustive enumeration over a "
         "lexer-significant alphabet gives.",
    note="Trusted: TLC, VerifLex hook, byte-level abstraction (non-ASCII bytes are opaque). Bounds: symbol strings <=3/4 (quick) and <=4/6 (thorough); "
         "fragment documents <=4/5 fragments.",
    technique="TLA+ model checking (TLC) + exhaustive replay + trace validation", ref="DESIGN.md §3 C06")
CHECKS["C15"] = dict(
    text="PongoDoc.tla states which whitespace each '-' marker and each of TrimBlocks/LStripBlocks names (Shape) and derives the hand-stripped "
         "document; TLC enumerates all fragment documents up to the bound x all dash subsets x the four option settings and checks the "
         "fragment-level and token-level outputs agree; the real engine renders the marked and the hand-stripped source and both must equal "
         "the specification's output. Trim flags of the delimiters come from PongoLexer (TrimFlags).",
    note="Trusted: TLC, harness renderer. Comments/verbatim are kept away from trimming constructs (unsettled placements). spaceless is covered "
         "by PongoFilters (see evidence).",
    technique="TLA+ model checking (TLC) + exhaustive replay (marked and hand-stripped documents)", ref="DESIGN.md §3 C15")
CHECKS["C16"] = dict(
    text="PongoLexer.tla keeps line/column incrementally; TLC checks CursorExact/PositionExact (bookkeeping equals the declarative position of "
         "the span start) in every reachable state of every enumerated source, and the real lexer's token and error positions must equal "
         "the specification's on all of them and on the token traces of the repository's templates (Trace_PongoLexer).",
    note="Trusted: TLC, VerifLex hook. Columns are bytes. Parser/execution error positions are checked by the harness's error sweep (see evidence).",
    technique="TLA+ model checking (TLC) + exhaustive replay + trace validation", ref="DESIGN.md §3 C16")

CHECKS["C09"] = dict(
    text="PongoRender.tla is an abstract interpreter of documents (Exec/Eval over abstract values with an event log). TLC enumerates every "
         "nesting of if/elif/else, for (empty, reversed, sorted, key/value), ifequal/ifnotequal, firstof, cycle, ifchanged to the bound over "
         "a data universe of lists, strings, maps and scalars of length 0..3, and predicts the exact output and the event sequence (scope "
         "push, iteration idx/count, write); every program is rendered by the real engine and both must match; the forloop record of every "
         "iteration is checked against its declarative definition. The property is a reference-interpreter claim over all programs of a "
         "grammar - exactly what an executable specification enumerates.",
    note="Trusted: TLC, the harness's AST-to-text printer and value concretiser, the tracer hooks. Bounds: depth 1 + nested-for to depth 3 + elif chains "
         "(quick), full depth 2 = 144k programs (thorough). Unsorted map iteration is excluded (Go map order).",
    technique="TLA+ executable specification enumerated by TLC + exhaustive replay with event-level comparison", ref="DESIGN.md §3 C09")

CHECKS["C12"] = dict(
    text="PongoRender.tla models the environment as a stack of scopes over the caller's context over the globals; TLC enumerates every nesting "
         "to depth 3 of 17 scoping and non-scoping constructs over two colliding names with probes before/inside/after each, checks that "
         "every render leaves the scope stack balanced, and predicts the exact probe output; the real engine must print the same, and the "
         "harness deep-compares the caller's Context and the set's Globals around every execution. API rules (non-identifier keys, macro "
         "clash, context over globals) are a further family.",
    note="Trusted: TLC, AST printer, reflect-free snapshot (%#v) of Context/Globals. Macro bodies run in a child of the defining scope (modelled as observed and documented in DESIGN.md).",
    technique="TLA+ executable specification enumerated by TLC + exhaustive replay with event-level comparison", ref="DESIGN.md §3 C12")
CHECKS["C13"] = dict(
    text="PongoRender.tla's macro part (positional binding, defaults evaluated in the defining scope, markup result, depth guard on every "
         "entry, import = bind under alias) is enumerated over all signatures x default subsets x argument counts x {local, import, alias}; "
         "TLC checks ImportEqualsLocal and RecursionBounded on the model; every program is replayed with event comparison, and every "
         "unbounded-recursion call graph (1..3 macros, local and imported) runs in its own process and must end in an execution error.",
    note="Trusted: TLC, harness printer, process isolation with a lowered stack limit. MaxMacroDepth 6 (model) vs 1000 (code).",
    technique="TLA+ executable specification enumerated by TLC + exhaustive replay; isolated-process replay for recursion", ref="DESIGN.md §3 C13")

CHECKS["C19"] = dict(
    text="PongoRender.tla defines a filter chain as a left fold with each argument evaluated in the current scope when its filter is "
         "applied, the filter tag as the chain over the rendered body, and binds tighter than any operator. TLC enumerates chains of "
         "defined (non-commuting) filters at 21 expression positions and predicts exact output and the order of filter events; the "
         "registry-wide families keep filters symbolic and the harness concretises ap(f,in,arg) with the public ApplyFilter - the "
         "equivalence the property states. PongoRegistry.tla (Register/Replace/use histories) is model-checked and replayed in fresh "
         "processes.",
    note="Trusted: TLC, harness printer, ApplyFilter as the meaning of symbolic filters, process isolation for the global registries.",
    technique="TLA+ executable specification enumerated by TLC + exhaustive replay with filter-event comparison; registry state machine replay", ref="DESIGN.md §3 C19")

CHECKS["C02"] = dict(
    text="In PongoRender.tla every context string leaf is a marker atom; writing a value under autoescape without an opt-out turns each "
         "marker into its escaped form. TLC enumerates all routes source x transport x transport x sink (18 transports, 7 sinks, 6 sources) "
         "and every registered filter on every source, checks NoRawMarker on the model (the design claim: every transport preserves taint) "
         "and the real engine's output must not contain the raw marker. The quantifier 'however it is reached, combined, looped over, "
         "assigned, passed, filtered' is a route enumeration, which the specification makes explicit.",
    note="Trusted: TLC, harness printer and value concretiser (Go struct / Stringer / map / list values), raw-marker search (case-insensitive). "
         "Exact output differences are counted in the evidence but belong to C09/C12/C19.",
    technique="TLA+ executable specification with taint markers enumerated by TLC + exhaustive replay", ref="DESIGN.md §3 C02")

CHECKS["C04"] = dict(
    text="PongoExec.tla models executions of one compiled template as a small-step machine whose `compiled` variable no action writes; TLC "
         "enumerates every history of up to three executions over entry point x context (incl. failing ones) and checks Isolation (equal "
         "inputs give equal results anywhere in a history) and CompiledImmutable. The rendering function itself is uninterpreted in this "
         "module and bound by the harness to 'compile afresh, execute once'; histories are replayed on thousands of generated and "
         "registry-driven programs under all four TrimBlocks/LStripBlocks settings, comparing every result with the reference and the "
         "reflective digest of everything reachable from the template with its value after compilation.",
    note="Trusted: TLC, VerifTemplateDigest (reflection walk over all fields, future fields included), the harness. Not decided: the static "
         "for-all-inputs clause. Excluded as the property says: clock, randomness, map order.",
    technique="TLA+ model checking (TLC) of execution histories + history replay with reflective template digest", ref="DESIGN.md §3 C04")
CHECKS["C05"] = dict(
    text="PongoExec.tla's thread configuration: two executions stepping node by node through one shared compiled template (with include, "
         "faults, all entry points); TLC visits every interleaving and checks Isolation and CompiledImmutable. PongoSched enumerates all "
         "priority schedules; the harness forces each onto two real goroutines through the blocking gate hook placed before every node and "
         "requires solo-equal results and an unchanged digest at every step; the same programs run gate-free with up to 16 goroutines under "
         "Go's race detector together with FromCache/FromString/lazy include on the shared set (a race whose stack is in pongo2 is a violation).",
    note="Trusted: TLC, gate hook, Go race detector, VerifTemplateDigest. Node-granularity interleavings; memory-level races come from the "
         "detector, not the model. Not decided: the static every-write clause. Cache interleavings: see C20.",
    technique="TLA+ model checking (TLC) of interleavings + forced-schedule replay + race-detector runs", ref="DESIGN.md §3 C05")
CHECKS["C14"] = dict(
    text="PongoExec.tla's writer part is a small-step machine per entry point (buffer, flush once, or stream; include nests a buffered "
         "execution) with fault parameters k (k-th node fails) and w (the caller's writer refuses from its w-th Write). TLC checks Agree, "
         "AllOrNothing, PrefixOnly, WriterErrorReturned, IncludeAtomic for every (k, w, entry, include position) and every combination is "
         "replayed with failing catalogue functions and a failing recording writer. Fault positions are exactly the property's quantifier.",
    note="Trusted: TLC, the harness's failing writer / failing function. Programs of 3 (quick) and 5 (thorough) nodes.",
    technique="TLA+ model checking (TLC) with fault enumeration + exhaustive fault-injection replay", ref="DESIGN.md §3 C14")

CHECKS["C07"] = dict(
    text="PongoExpr.tla defines, for expression trees, the minimal-parenthesis token sequence (Tokens), the value under the documented "
         "int/float/string/bool rules with rationals for floats (Eval), and its canonical printed form (Canon); a precedence-climbing "
         "parser inside the specification shows Tokens is unambiguous (Reparse) and ShortCircuit is checked on every tree. TLC enumerates "
         "all trees of the bounded families and the real engine must print the same canonical form for {{ e }} and take the same branch "
         "for {% if e %} after the tokens are written with random spacing and operator spellings.",
    note="Trusted: TLC, the harness's token joiner and six-decimal formatter. Restricted to the uncontroversial fragment the property names; "
         "values beyond the 32-bit-safe range are pruned and counted.",
    technique="TLA+ executable specification (printer + evaluator + reparse invariant) enumerated by TLC + exhaustive replay", ref="DESIGN.md §3 C07")

CHECKS["C10"] = dict(
    text="PongoInherit.tla defines the rendering of level k of a chain as the base document with every block replaced by the most-derived "
         "definition at or below k, Super as the next definition below, and nested blocks dispatching over the whole chain; TLC enumerates "
         "all chains to the bound (7 definition shapes per level and block incl. nested blocks before Super, blocks in if/for) and checks "
         "ParentUnaffected and OutsideIgnored on the definition. Every template of every chain is compiled and rendered through an "
         "in-memory loader and compared with Render(chain, k); chains whose blocks contain each other without end run isolated and must "
         "fail with an error; the invalid shapes must be compile errors. The same definitions decide ExecuteBlocks (the named blocks of "
         "every level rendered on their own, for seven request sets each).",
    note="Trusted: TLC, the harness's chain printer. Bounds: depth 1 full + depth 2/3 reduced shapes (quick); depth 1-3 (thorough, ~1e5 chains).",
    technique="TLA+ executable specification enumerated by TLC + exhaustive replay of every template of every chain", ref="DESIGN.md §3 C10")

CHECKS["C11"] = dict(
    text="PongoLoader.tla defines name resolution (rooted: from the loader's root; otherwise: the referring template's directory), first-"
         "loader-wins lookup, what compiling fetches (static references, transitively) and what executing fetches (computed includes), "
         "missing-name outcomes with and without if_exists, extends, import and both ssi modes, and the exact set of (loader, path) "
         "requests. TLC enumerates virtual trees x loader lists x references; each vector is replayed with two recording loaders whose "
         "virtual root is a real directory holding canary files no loader serves: output, error and the set of requested paths must equal "
         "the specification's and no canary text may appear.",
    note="Trusted: TLC, the harness's recording loaders (their Abs implements the name rules). Reference graphs of depth <=2 with <=3 edges.",
    technique="TLA+ executable specification enumerated by TLC + exhaustive replay with recording loaders and file-system canaries", ref="DESIGN.md §3 C11")

CHECKS["C17"] = dict(
    text="PongoFilters.tla defines each escaping filter as a per-character (small-window) transducer over character classes and states the "
         "promises as invariants of the reference itself (escape output has no dangerous character and HTML-unescapes to the input, addslashes "
         "adds exactly the named backslashes, escapejs output is letters / space / slash / \\uXXXX, striptags leaves no complete tag). TLC "
         "checks them on all strings up to the bound and every string is replayed through ApplyFilter and the template syntax; the class "
         "rules are then concretised exhaustively over the BMP by the harness. 'All strings' = bounded-exhaustive over the special "
         "characters + exhaustive over single characters and windows.",
    note="Trusted: TLC, the harness's class rules (a direct transcription of the module's class definitions), Go's utf8/utf16. Named deviations in evidence.",
    technique="TLA+ reference transducers model-checked by TLC + exhaustive replay + exhaustive BMP class sweep", ref="DESIGN.md §3 C17")
CHECKS["C18"] = dict(
    text="PongoFilters.tla gives reference definitions (Python slicing, character-counted sequence operations, padding/truncation shapes, "
         "numeric filters, widthratio rounding) and TLC checks shape invariants on them over exhaustive integer windows; every case is "
         "replayed through ApplyFilter and the template syntax and the result compared as a value (kind, content, element-wise for lists).",
    note="Trusted: TLC, harness value comparison. Not decided: date/time/stringformat/floatformat/float (Go formatters, IEEE) - see evidence assumptions.",
    technique="TLA+ reference definitions enumerated by TLC + exhaustive replay through both routes", ref="DESIGN.md §3 C18")

CHECKS["C08"] = dict(
    text="PongoResolve.tla is the reference resolver: a cursor walk with one rule per step kind (name: method, dereference, field, key; "
         "index; subscript; call with the call protocol) and the outcomes value / empty / error, checked total (NeverStuck) by TLC over a "
         "catalogue of 18 roots x all paths of length <=2 x call shapes. Every path is evaluated by the real engine against the same "
         "catalogue built from real Go values ({{ path }}, {% if path %}, |length), also under a tag-set name that shadows a context key "
         "while every name additionally exists as a global.",
    note="Trusted: TLC, the harness's Go catalogue (hand-written to mirror the abstract one). Paths of length <=2; subscripts last; positions inside strings skipped.",
    technique="TLA+ reference resolver enumerated by TLC + exhaustive replay against a Go value catalogue", ref="DESIGN.md §3 C08")

CHECKS["C01"] = dict(
    text="PongoApi.tla contains the public API as an outcome machine (compile: template or error; execute: output or error; no action for "
         "a panic, a dead process or a call that does not return) and the surface grammar as a generator instantiated from the live tag "
         "and filter registries and the harness's value universe, incl. deliberately ill-formed productions. TLC's simulation mode draws "
         "derivations; every source (plus all byte strings of the lexer's exhaustive configurations) is compiled and executed with three "
         "contexts in an isolated worker under a deadline; the worker's outcome log is validated by Trace_PongoApi. The oracle is weak by "
         "nature ('no bad event'); the strength is breadth, which is what the property's quantifier asks for.",
    note="Trusted: TLC, process isolation (lowered stack limit, 8 s deadline), the value universe. Every other check additionally runs its programs under panic recovery.",
    technique="TLA+ grammar/API specification simulated by TLC + isolated-process execution + trace validation", ref="DESIGN.md §3 C01")

PENDING = {
}

def main():
    ids = ["C%02d" % i for i in range(1, 21)]
    m = {
        "version": 1,
        "setup_cmd": "bin/verif setup",
        "hooks": {
            "guard": "verif",
            "enable": "go build -tags verif (the harness under /verif/harness is built with -tags verif against /repo via a replace directive)",
            "baseline_off_cmd": "cd /repo && GOFLAGS=-mod=mod GOPROXY=off go test -vet=off -count=1 ./...",
            "source_commits": subprocess.run(["git", "-C", "/repo", "log", "--format=%h %s", "--grep=^verif:"], capture_output=True, text=True).stdout.strip().splitlines(),
            "add_only": True,
        },
        "engines": [
            {"name": "tlc", "path": "spec/", "serves_properties": sorted(CHECKS), "kind_free_text": "TLA+ specification checked with TLC (exhaustive bounded model checking, simulation, trace validation)"},
            {"name": "pvh", "path": "harness/", "serves_properties": sorted(CHECKS), "kind_free_text": "Go conformance harness: replays TLC behaviours into pongo2 and records traces for TLC"},
        ],
        "checks": [],
        "not_applicable": [],
        "notes": "All checks: exit 0 held / 1 violation in real-code behaviour / 2 machinery error. VERIF_SEED seeds TLC simulation and the harness. See DESIGN.md.",
    }
    for pid in ids:
        if pid in CHECKS:
            c = CHECKS[pid]
            m["checks"].append({
                "property_id": pid,
                "quick_cmd": "bin/verif check %s --tier quick" % pid,
                "thorough_cmd": "bin/verif check %s --tier thorough" % pid,
                "evidence_file": "evidence/%s.json" % pid,
                "replay_cmd_template": "bin/verif replay {path}",
                "engine": "tlc",
                "level_claimed": {"category": "model_checking", "text": c["text"], "design_ref": c["ref"]},
                "level_note": c["note"],
                "technique": c["technique"],
            })
        else:
            m["not_applicable"].append({"property_id": pid, "reason": PENDING.get(pid, "check not built yet in this revision (specification module planned in DESIGN.md §3); not claimed until it runs green")})
    json.dump(m, open(os.path.join(HERE, "MANIFEST.json"), "w"), indent=1)

if __name__ == "__main__":
    main()
