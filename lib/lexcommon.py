"""Shared driver for the lexer/document based properties C06, C15, C16."""
import json

from common import *  # noqa


def lex_replay(rep, pvh, cfgs, kinds, module="MC_PongoLexer", cmd="lex-replay", timeout=3000):
    """Run the given MC configs, stream their vectors through the harness, file the disagreements whose
    kind is in `kinds` as violations of rep.pid. Returns number of cases."""
    total = 0
    for cfg in cfgs:
        lines = []
        res = run_tlc(module, cfg, timeout=timeout, deadlock=False, vector_sink=lambda o: lines.append(json.dumps(o)))
        require_model_ok(res, cfg)
        rep.add_tlc(cfg, res)
        if not lines:
            raise MachineryError(cfg + " produced no vectors")
        r = run_harness(pvh, [cmd], stdin_text="\n".join(lines) + "\n", timeout=timeout)
        for v in r["violations"]:
            k = (v["detail"] or {}).get("kind", "")
            if k in kinds or k == "panic":
                rep.violation(v["key"], v["detail"])
        rep.cov["evaluations"] += r["checked"]
        rep.cov["distinct_nontrivial"] += r["distinct"]
        total += r["checked"]
        for s in r["samples"][:2]:
            rep.sample(s)
        rep.extra.setdefault("disagreements_by_kind", {})[cfg] = r["extra"].get("by_kind")
    return total


def replay_one(pid, doc, kinds):
    d = doc["detail"] or {}
    pvh = build_harness()
    r = run_harness(pvh, [d.get("cmd", "lex-replay")], stdin_text=json.dumps(d["vector"]) + "\n")
    bad = [v for v in r["violations"] if (v["detail"] or {}).get("kind") in kinds]
    for v in bad[:5]:
        print("VIOLATION property=%s replay=-" % pid)
        print("  " + v["key"][:400])
    return 1 if bad else 0


def fixture_files():
    import glob
    files = sorted(glob.glob(os.path.join(REPO, "template_tests", "*.tpl")) +
                   glob.glob(os.path.join(REPO, "template_tests", "*.err")) +
                   glob.glob(os.path.join(REPO, "template_tests", "*.helper")) +
                   glob.glob(os.path.join(REPO, "template_tests", "*", "*.tpl")))
    files.append(os.path.join(REPO, "README.md"))
    for d in glob.glob(os.path.join(REPO, "testdata", "fuzz", "*")):
        files += sorted(glob.glob(os.path.join(d, "*")))[:20]
    return [f for f in files if os.path.isfile(f)]


def fixture_traces(rep, pvh, kinds):
    """code -> spec: the real lexer's token traces of the repository's own templates are validated by Trace_PongoLexer."""
    files = fixture_files()
    tf = os.path.join(BUILD, "trace_lex_%s.ndjson" % rep.pid)
    r = run_harness(pvh, ["lex-trace", tf] + files, timeout=600)
    text = open(tf).read()
    os.unlink(tf)
    res = run_tlc("Trace_PongoLexer", "Trace_PongoLexer.cfg", workers=1, timeout=1800,
                  extra_files={"trace_lex.ndjson": text}, deadlock=False)
    rep.add_tlc("Trace_PongoLexer (fixtures)", res)
    rep.extra["fixture_traces"] = r["checked"]
    rep.extra["fixture_trace_events"] = r["extra"]["events"]
    if not res.ok:
        import re
        m = re.search(r"TRACE-REJECTED.*", res.raw_tail + res.errtext)
        if m:
            rep.violation("lexer trace of the repository's templates rejected: " + m.group(0)[:400],
                          {"where": m.group(0)[:2000], "cmd": "lex-trace"})
        elif res.violated:
            rep.violation("lexer trace: invariant %s violated" % res.violated, {"err": res.errtext[:2000]})
        else:
            raise MachineryError("lexer trace validation gave no verdict:\n" + res.errtext[:2000] + res.raw_tail[-1500:])
    return r["checked"]
