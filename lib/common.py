"""Shared machinery for the pongo2 TLA+ verification checks.

Every check is `bin/verif check <ID> --tier quick|thorough`.  A check
  1. builds the Go conformance harness from /repo's *current working tree* (build tag `verif`),
  2. runs TLC on the bounded configurations of the specification (invariants on the model,
     vectors = behaviours of the specification printed as JSON),
  3. replays the vectors against the real code and/or validates traces recorded from the real
     code against the trace specifications,
  4. writes evidence/<ID>.json and prints VIOLATION / KNOWN-FINDING lines.

Exit codes: 0 = held on everything explored, 1 = violation found in real-code behaviour,
2 = machinery error (never a verdict).
"""
import hashlib
import json
import os
import re
import shutil
import subprocess
import sys
import tempfile
import time

VERIF = os.path.dirname(os.path.dirname(os.path.abspath(__file__)))
REPO = os.environ.get("VERIF_REPO", "/repo")
BUILD = os.environ.get("VERIF_BUILD", os.path.join(VERIF, ".build"))
SPEC = os.path.join(VERIF, "spec")
HARNESS = os.path.join(VERIF, "harness")
EVIDENCE = os.environ.get("VERIF_EVIDENCE", os.path.join(VERIF, "evidence"))
REPLAYS = os.environ.get("VERIF_REPLAYS", os.path.join(VERIF, "replays"))
KNOWN = os.path.join(VERIF, "known_findings.jsonl")
NCPU = os.cpu_count() or 4


class MachineryError(Exception):
    pass


def goenv():
    e = dict(os.environ)
    e.update(GOFLAGS="-mod=mod", GOPROXY="off", GOSUMDB="off", GOTOOLCHAIN="local", CGO_ENABLED="1")
    e.setdefault("GOCACHE", os.path.join(BUILD, "gocache"))
    return e


def seed():
    try:
        return int(os.environ.get("VERIF_SEED", "1"))
    except ValueError:
        return 1


def log(*a):
    print(*a, file=sys.stderr, flush=True)


# ---------------------------------------------------------------- harness build

def build_harness(race=False):
    """Build the harness binary against REPO's working tree. Returns path of the binary."""
    os.makedirs(BUILD, exist_ok=True)
    out = os.path.join(BUILD, "pvh-race" if race else "pvh")
    modfile = os.path.join(BUILD, "go.mod")
    with open(os.path.join(HARNESS, "go.mod")) as f:
        mod = f.read()
    mod = re.sub(r"=> /repo\b", "=> " + REPO, mod)
    with open(modfile, "w") as f:
        f.write(mod)
    sumsrc = os.path.join(REPO, "go.sum")
    with open(os.path.join(BUILD, "go.sum"), "w") as f:
        if os.path.exists(sumsrc):
            f.write(open(sumsrc).read())
    cmd = ["go", "build", "-modfile=" + modfile, "-tags", "verif", "-o", out]
    if race:
        cmd.append("-race")
    cmd.append(".")
    t0 = time.time()
    p = subprocess.run(cmd, cwd=HARNESS, env=goenv(), capture_output=True, text=True)
    if p.returncode != 0:
        raise MachineryError("harness build failed:\n" + p.stdout + p.stderr)
    log("[build] %s in %.1fs" % (os.path.basename(out), time.time() - t0))
    return out


def run_harness(binary, args, stdin_text=None, timeout=3600, env_extra=None):
    """Run a harness sub-command; returns the parsed JSON document it prints on its last stdout line.
    Non-zero exit of the harness is a machinery error (the harness reports violations in its JSON)."""
    env = goenv()
    env["VERIF_SEED"] = str(seed())
    if env_extra:
        env.update(env_extra)
    try:
        p = subprocess.run([binary] + args, input=stdin_text, capture_output=True, text=True,
                           timeout=timeout, env=env)
    except subprocess.TimeoutExpired:
        raise MachineryError("harness timeout: " + " ".join(args))
    if p.returncode != 0:
        raise MachineryError("harness %s exited %d:\n%s\n%s" % (" ".join(args), p.returncode,
                                                               p.stdout[-3000:], p.stderr[-6000:]))
    lines = [l for l in p.stdout.splitlines() if l.strip()]
    if not lines:
        raise MachineryError("harness printed nothing: " + " ".join(args) + "\n" + p.stderr[-3000:])
    try:
        return json.loads(lines[-1])
    except ValueError:
        raise MachineryError("harness output not JSON: " + lines[-1][:500])


# ---------------------------------------------------------------- TLC

class TLCResult:
    def __init__(self):
        self.generated = 0
        self.distinct = 0
        self.depth = 0
        self.vectors = []       # decoded JSON objects printed by the spec
        self.ok = False         # "No error has been found"
        self.violated = None    # name of violated invariant / property
        self.errtext = ""
        self.raw_tail = ""
        self.wall = 0.0
        self.coverage = {}      # action -> (count, distinct)
        self.cmd = ""


_STAT = re.compile(r"(\d+) states generated, (\d+) distinct states found")
_DEPTH = re.compile(r"The depth of the complete state graph search is (\d+)")
_COV = re.compile(r"^<(\w+) line \d+, col \d+ to line \d+, col \d+ of module (\w+)>: (\d+):(\d+)")


def run_tlc(module, cfg, workers=None, timeout=1200, simulate=None, depth=None, coverage=False,
            extra_files=None, heap=None, defines=None, keep_vectors=True, vector_sink=None,
            deadlock=True, dfs=False, postfiles=None):
    """Run TLC on spec/<module>.tla with spec/<cfg> in a scratch copy of the spec directory.

    extra_files: {name: text} written next to the spec (e.g. trace.ndjson, generated constants).
    vector_sink: optional callable(obj) called per decoded vector instead of storing them.
    """
    res = TLCResult()
    os.makedirs(BUILD, exist_ok=True)
    work = tempfile.mkdtemp(prefix="tlc_", dir=BUILD)
    try:
        for root, _dirs, files in os.walk(SPEC):
            for fn in files:
                if fn.endswith(".tla") or fn.endswith(".cfg"):
                    shutil.copy(os.path.join(root, fn), os.path.join(work, fn))
        for name, text in (extra_files or {}).items():
            with open(os.path.join(work, name), "w") as f:
                f.write(text)
        w = str(workers or NCPU)
        cmd = ["java", "-XX:+UseParallelGC", "-Xss512m"]
        if heap:
            cmd.append("-Xmx" + heap)
        if dfs:
            cmd.append("-Dtlc2.tool.queue.IStateQueue=StateDeque")
        cmd += ["-cp", "/opt/veriftools/tla/tla2tools.jar:/opt/veriftools/tla/CommunityModules-deps.jar",
                "tlc2.TLC", "-workers", w, "-metadir", os.path.join(work, "meta"),
                "-config", cfg]
        if not deadlock:
            cmd.append("-deadlock")
        if coverage:
            cmd += ["-coverage", "1"]
        if simulate:
            cmd += ["-simulate", "num=%d" % simulate, "-seed", str(seed())]
            if depth:
                cmd += ["-depth", str(depth)]
        cmd.append(module + ".tla")
        res.cmd = " ".join(cmd[cmd.index("tlc2.TLC"):])
        t0 = time.time()
        p = subprocess.Popen(cmd, cwd=work, stdout=subprocess.PIPE, stderr=subprocess.STDOUT, text=True,
                             errors="replace")
        tail = []
        errlines = []
        inerr = False
        deadline = t0 + timeout
        try:
            for line in p.stdout:
                if time.time() > deadline:
                    p.kill()
                    raise MachineryError("TLC timeout (%ds): %s %s" % (timeout, module, cfg))
                line = line.rstrip("\n")
                if line.startswith('"{') and line.endswith('"'):
                    try:
                        obj = json.loads(json.loads(line))
                    except ValueError:
                        raise MachineryError("undecodable vector line: " + line[:300])
                    if vector_sink:
                        vector_sink(obj)
                    elif keep_vectors:
                        res.vectors.append(obj)
                    continue
                tail.append(line)
                if len(tail) > 400:
                    del tail[:200]
                m = _STAT.search(line)
                if m:
                    res.generated, res.distinct = int(m.group(1)), int(m.group(2))
                m = _DEPTH.search(line)
                if m:
                    res.depth = int(m.group(1))
                m = _COV.match(line)
                if m:
                    res.coverage[m.group(1)] = (int(m.group(3)), int(m.group(4)))
                if line.startswith("Error:"):
                    inerr = True
                if inerr:
                    errlines.append(line)
                m = re.match(r"Error: Invariant (\w+) is violated", line)
                if m:
                    res.violated = m.group(1)
                m = re.match(r"Error: Action property (\w+) is violated", line)
                if m:
                    res.violated = m.group(1)
                if "Temporal properties were violated" in line:
                    res.violated = res.violated or "temporal"
                if "No error has been found" in line:
                    res.ok = True
        finally:
            p.wait()
        res.wall = time.time() - t0
        res.errtext = "\n".join(errlines[:200])
        res.raw_tail = "\n".join(tail[-120:])
        if simulate and p.returncode == 0 and not errlines:
            res.ok = True
        if not res.ok and not res.violated and not errlines:
            raise MachineryError("TLC ended without verdict (%s %s, rc=%s):\n%s" % (module, cfg, p.returncode, res.raw_tail))
        if postfiles is not None:
            for name in list(postfiles):
                fp = os.path.join(work, name)
                postfiles[name] = open(fp).read() if os.path.exists(fp) else None
        return res
    finally:
        shutil.rmtree(work, ignore_errors=True)


def require_model_ok(res, what):
    """A failing invariant on the *model alone* is a machinery/spec error, never a verdict about pongo2."""
    if not res.ok:
        raise MachineryError("%s: TLC did not accept the model (%s)\n%s\n%s" % (
            what, res.violated, res.errtext[:3000], res.raw_tail[-2000:]))


# ---------------------------------------------------------------- findings / reporting

def load_known():
    out = []
    if os.path.exists(KNOWN):
        for line in open(KNOWN):
            line = line.strip()
            if not line or line.startswith("#"):
                continue
            out.append(json.loads(line))
    return out


class Reporter:
    """Collects violations for one property, separates the known findings, writes replay files."""

    def __init__(self, pid, tier):
        self.pid = pid
        self.tier = tier
        self.t0 = time.time()
        self.known = [k for k in load_known() if k.get("property") == pid and k.get("status") == "known"]
        self.violations = []     # (key, detail)
        self.known_hit = {}      # finding id -> count
        self.cov = {"states": 0, "transitions": 0, "traces_validated_against_impl": 0, "samples": [],
                    "evaluations": 0, "distinct_nontrivial": 0}
        self.assumptions = []
        self.extra = {}
        self.tlc_runs = []

    def match_known(self, key):
        for k in self.known:
            pat = k.get("match")
            if pat and re.search(pat, key):
                return k
        return None

    def violation(self, key, detail):
        """key: canonical one-line description of the failing input/history; detail: JSON-able reproducer."""
        k = self.match_known(key)
        if k is not None:
            self.known_hit[k["id"]] = self.known_hit.get(k["id"], 0) + 1
            return False
        self.violations.append((key, detail))
        return True

    def add_tlc(self, name, res):
        self.cov["states"] += res.distinct
        self.cov["transitions"] += res.generated
        self.tlc_runs.append({"config": name, "generated": res.generated, "distinct": res.distinct,
                              "depth": res.depth, "wall_s": round(res.wall, 2), "cmd": res.cmd})

    def sample(self, s):
        if len(self.cov["samples"]) < 8:
            self.cov["samples"].append(s)

    def finish(self, rule, explanation="", exhaustive=None):
        os.makedirs(EVIDENCE, exist_ok=True)
        for k in self.known:
            if k["id"] in self.known_hit:
                print("KNOWN-FINDING: property=%s %s (%d cases this run)" % (self.pid, k["what"], self.known_hit[k["id"]]))
        paths = []
        if self.violations:
            d = os.path.join(REPLAYS, self.pid)
            os.makedirs(d, exist_ok=True)
            seen = set()
            for key, detail in self.violations:
                h = hashlib.sha1(key.encode()).hexdigest()[:12]
                if h in seen:
                    continue
                seen.add(h)
                if len(seen) > 20:
                    break
                path = os.path.join(d, h + ".json")
                with open(path, "w") as f:
                    json.dump({"property": self.pid, "key": key, "detail": detail, "seed": seed(),
                               "rerun": "bin/verif replay " + path}, f, indent=1, default=str)
                paths.append(path)
                print("VIOLATION property=%s replay=%s" % (self.pid, path))
                print("  " + key[:400])
        cov = dict(self.cov)
        cov["rule"] = rule
        if explanation:
            cov["explanation"] = explanation
        if exhaustive is not None:
            cov["exhaustive"] = exhaustive
        cov["tlc_runs"] = self.tlc_runs
        cov["known_findings_hit"] = self.known_hit
        cov["checker_cmd"] = "; ".join(r["cmd"] for r in self.tlc_runs[:3])
        cov.update(self.extra)
        if not cov["samples"]:
            cov["samples"] = ["(no sample recorded)"]
        if cov["states"] < 1:
            cov["states"] = 0
        ev = {"property_id": self.pid, "tier": self.tier, "seed": seed(), "level": "model_checking",
              "coverage": cov, "assumptions": self.assumptions, "wall_s": round(time.time() - self.t0, 2),
              "violations": len(self.violations)}
        with open(os.path.join(EVIDENCE, self.pid + ".json"), "w") as f:
            json.dump(ev, f, indent=1, default=str)
        return 1 if self.violations else 0


def chunks(seq, n):
    for i in range(0, len(seq), n):
        yield seq[i:i + n]
