"""Shared driver for the properties decided with PongoRender.tla (C02, C09, C12, C13, C19)."""
import json

from common import *  # noqa


def render_replay(rep, pvh, module, cfgs, timeout=3000, accept=None, simulate=None, depth=None, isolated=False, extra_files=None):
    """TLC enumerates the programs of each config and predicts output + events; the harness renders them for real."""
    total = 0
    for cfg in cfgs:
        lines = []
        res = run_tlc(module, cfg, timeout=timeout, deadlock=False, simulate=simulate, depth=depth, extra_files=extra_files,
                      vector_sink=lambda o: lines.append(json.dumps(o)))
        require_model_ok(res, cfg)
        rep.add_tlc(cfg, res)
        if not lines:
            raise MachineryError(cfg + " produced no vectors")
        r = run_harness(pvh, ["render-isolated"] if isolated else ["render-replay"], stdin_text="\n".join(lines) + "\n", timeout=timeout)
        for v in r["violations"]:
            if accept is None or accept(v):
                rep.violation(v["key"], v["detail"])
        rep.cov["evaluations"] += r["checked"]
        rep.cov["distinct_nontrivial"] += r["distinct"]
        rep.cov["traces_validated_against_impl"] += r["checked"]
        rep.extra.setdefault("skipped_unconcretisable", 0)
        rep.extra["skipped_unconcretisable"] += r["skipped"]
        total += r["checked"]
        for s in r["samples"][:2]:
            rep.sample(s)
    return total


def replay_one(pid, doc):
    d = doc["detail"] or {}
    pvh = build_harness()
    r = run_harness(pvh, [d.get("cmd", "render-replay")], stdin_text=json.dumps(d["vector"]) + "\n")
    for v in r["violations"][:5]:
        print("VIOLATION property=%s replay=-" % pid)
        print("  " + v["key"][:400])
    return 1 if r["violations"] else 0


def registry_histories(rep, pvh):
    """PongoRegistry.tla: histories over Register/Replace/compile on the process-global registries, each in a fresh process."""
    lines = []
    res = run_tlc("PongoRegistry", "MC_PongoRegistry.cfg", timeout=600, deadlock=False,
                  vector_sink=lambda o: lines.append(json.dumps(o)))
    require_model_ok(res, "PongoRegistry")
    rep.add_tlc("MC_PongoRegistry.cfg", res)
    r = run_harness(pvh, ["render-isolated", "registry-replay"], stdin_text="\n".join(lines) + "\n", timeout=1200)
    for v in r["violations"]:
        rep.violation(v["key"], v["detail"])
    rep.cov["evaluations"] += r["checked"]
    rep.cov["distinct_nontrivial"] += r["distinct"]
    rep.extra["registry_histories"] = r["checked"]
