"""Binding self-test (DESIGN.md section 4): the trace specifications really constrain the recorded executions.

For each trace specification a trace is recorded from the real code, must be accepted as it is, and must be REJECTED
after each of a set of small corruptions (one field changed, one event removed, one event duplicated, two events
swapped) - the corruptions stand for a misplaced or missing hook and for an implementation step the specification does
not allow.  A corruption that is accepted means the trace specification is vacuous at that point: exit 2 (a defect of
the machinery, never a verdict about pongo2).

  bin/verif selftest [set] [lexer] [api]
"""
import json
import os
import re
import sys

from common import *  # noqa


def _verdict(module, cfg, fname, text):
    res = run_tlc(module, cfg, workers=1, timeout=900, extra_files={fname: text}, deadlock=False)
    if res.ok:
        return "accepted"
    if "TRACE-REJECTED" in (res.raw_tail + res.errtext) or res.violated:
        return "rejected"
    raise MachineryError("%s gave no verdict:\n%s" % (module, (res.errtext + res.raw_tail)[-1500:]))


def _mutations(lines, field_edits, structural=None):
    """yield (label, mutated lines): field edits on a line in the middle, a removed / duplicated line, a swap"""
    n = len(lines)
    mid = n // 2
    for label, pattern, repl in field_edits:
        for i in list(range(mid, n)) + list(range(1, mid)):
            if re.search(pattern, lines[i]):
                new = re.sub(pattern, repl, lines[i], count=1)
                if new != lines[i]:
                    yield "%s (line %d)" % (label, i + 1), lines[:i] + [new] + lines[i + 1:]
                    break
    if structural:
        # (the API machine allows any number of executions of a compiled template: removing one execution is a legal
        #  behaviour; the structural corruptions are applied to an event of the given kind)
        mid = next(i for i in list(range(mid, n)) + list(range(1, mid)) if re.search(structural, lines[i]))
    yield "event removed (line %d)" % (mid + 1), lines[:mid] + lines[mid + 1:]
    yield "event duplicated (line %d)" % (mid + 1), lines[:mid + 1] + [lines[mid]] + lines[mid + 1:]
    # a hook that is missing altogether: every event of one kind dropped (what a removed hook call would record)
    kinds = []
    for l in lines:
        m = re.search(r'"ev":"(\w+)"', l)
        if m and m.group(1) not in kinds:
            kinds.append(m.group(1))
    for k in kinds:
        # (optional steps of their machines / trace separators: an API history in which no source fails to compile or none is
        #  executed is a legal history; Begin / End / Reset delimit traces)
        if k in ("ExecOk", "ExecErr", "WarmOk", "WarmErr", "CompileErr", "Reset", "Begin", "End"):
            continue
        yield "hook removed: no %s events" % k, [l for l in lines if '"ev":"%s"' % k not in l]
    for i in range(mid, n - 1):
        if lines[i] != lines[i + 1]:
            yield "events swapped (lines %d/%d)" % (i + 1, i + 2), lines[:i] + [lines[i + 1], lines[i]] + lines[i + 2:]
            break


def _run(name, module, cfg, fname, text, field_edits, structural=None):
    lines = [l for l in text.splitlines() if l.strip()]
    out = {"events": len(lines), "mutations": []}
    v = _verdict(module, cfg, fname, "\n".join(lines) + "\n")
    print("[selftest] %s: recorded trace of %d events: %s" % (name, len(lines), v))
    if v != "accepted":
        raise MachineryError("%s: the unmodified trace was rejected" % name)
    bad = 0
    for label, mutated in _mutations(lines, field_edits, structural):
        v = _verdict(module, cfg, fname, "\n".join(mutated) + "\n")
        print("[selftest]   %-48s %s" % (label, v))
        out["mutations"].append({"mutation": label, "verdict": v})
        if v != "rejected":
            bad += 1
    out["accepted_corruptions"] = bad
    return out


def main(argv):
    want = set(argv) or {"set", "lexer", "api"}
    pvh = build_harness()
    report = {}
    if "set" in want:
        tf = os.path.join(BUILD, "selftest_c20.ndjson")
        run_harness(pvh, ["c20-free", "3", "3", "5", tf], timeout=600)
        text = open(tf).read()
        os.unlink(tf)
        report["Trace_PongoSet"] = _run("cache events (Trace_PongoSet)", "Trace_PongoSet", "Trace_PongoSet.cfg", "trace_c20.ndjson", text, [
            ("thread of an event changed", r'"th":"t1"', '"th":"t2"'),
            ("CacheLock logged as CacheUnlock", r'"ev":"CacheLock"', '"ev":"CacheUnlock"'),
            ("template identity changed", r'"id":([1-9]\d*)', lambda m: '"id":%d' % (int(m.group(1)) + 7)),
            ("set of an event changed", r'"set":"s1"', '"set":"s2"'),
        ], structural=r'"ev":"CacheLock"')      # (observation events are idempotent: the structural corruptions take a state-changing one)
    if "lexer" in want:
        tf = os.path.join(BUILD, "selftest_lex.ndjson")
        run_harness(pvh, ["lex-trace", tf, os.path.join(REPO, "template_tests", "if.tpl"), os.path.join(REPO, "template_tests", "macro.tpl")], timeout=600)
        text = open(tf).read()
        os.unlink(tf)
        report["Trace_PongoLexer"] = _run("token traces (Trace_PongoLexer)", "Trace_PongoLexer", "Trace_PongoLexer.cfg", "trace_lex.ndjson", text, [
            ("column of a token off by one", r'"col":(\d+)', lambda m: '"col":%d' % (int(m.group(1)) + 1)),
            ("line of a token off by one", r'"line":(\d+)', lambda m: '"line":%d' % (int(m.group(1)) + 1)),
            ("type of a token changed", r'"typ":"Identifier"', '"typ":"String"'),
        ], structural=r'"ev":"Tok"')
    if "api" in want:
        tf = os.path.join(BUILD, "selftest_api.ndjson")
        progs = "\n".join(json.dumps({"src": list(s.encode())}) for s in
                          ["a{{ 1 }}", "{% if x %}y{% endif %}", "{{", "{{ 1/0 }}", "{% for i in l %}{{ i }}{% endfor %}"]) + "\n"
        run_harness(pvh, ["c01-run", tf], stdin_text=progs, timeout=600)
        text = open(tf).read()
        os.unlink(tf)
        report["Trace_PongoApi"] = _run("API outcomes (Trace_PongoApi)", "Trace_PongoApi", "Trace_PongoApi.cfg", "trace_api.ndjson", text, [
            ("an outcome logged as a panic", r'"ev":"(ExecOk|ExecErr|CompileErr|CompileOk)"', '"ev":"Panic"'),
            ("an outcome logged as a hang", r'"ev":"(ExecOk|ExecErr)"', '"ev":"Hang"'),
            ("a failed compile logged as a success", r'"ev":"CompileErr"', '"ev":"ExecOk"'),
        ], structural=r'"ev":"CompileOk"')
    os.makedirs(EVIDENCE, exist_ok=True)
    with open(os.path.join(VERIF, "selftest_report.json"), "w") as f:
        json.dump(report, f, indent=1)
    bad = sum(r["accepted_corruptions"] for r in report.values())
    if bad:
        print("[selftest] %d corruption(s) were ACCEPTED: the trace specification is vacuous there" % bad)
        return 2
    print("[selftest] every corruption was rejected")
    return 0
