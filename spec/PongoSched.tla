------------------------------ MODULE PongoSched ------------------------------
(***************************************************************************)
(* Schedules for forced-interleaving replay (C05): every sequence over the  *)
(* thread ids of length Len.  A schedule is a priority list: at each step   *)
(* the named thread passes its next gate (one gate before every node it     *)
(* executes) if it is parked at one; when the list is exhausted the threads *)
(* run to completion.  PongoExec.tla's thread configuration checks          *)
(* Isolation for every interleaving of its abstract model; this module only *)
(* enumerates the interleavings to force onto the real engine.              *)
(***************************************************************************)
EXTENDS Integers, Sequences, TLC, Json
CONSTANTS NThreads, SchedLen
VARIABLE sched
Init == sched = <<>>
Next == Len(sched) < SchedLen /\ \E t \in 0..(NThreads - 1) : sched' = Append(sched, t)
Emit == (Len(sched) = SchedLen) => PrintT(ToJson([m |-> "PongoSched", sched |-> sched]))
=============================================================================
