INIT Init
NEXT Next
CONSTANTS
  Layouts = {0, 1, 5, 15}
  NestedKind = "loop"
INVARIANTS FirstWins EmitVec
