INIT Init
NEXT Next
CONSTANTS
  Family = "routes3"
  RegFilters = {}
INVARIANTS NoRaw EmitVec
