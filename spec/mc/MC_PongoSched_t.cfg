INIT Init
NEXT Next
CONSTANTS
  NThreads = 2
  SchedLen = 12
INVARIANT Emit
