INIT Init
NEXT Next
CONSTANTS
  Family = "escapejs"
  MaxLen = 3
INVARIANTS Shapes EmitVec
