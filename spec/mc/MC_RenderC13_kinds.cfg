INIT Init
NEXT Next
CONSTANTS
  Family = "kinds"
  MaxParams = 4
INVARIANTS Balanced RecursionBounded ImportEqualsLocal EmitVec
