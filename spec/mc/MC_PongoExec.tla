----------------------------- MODULE MC_PongoExec -----------------------------
EXTENDS PongoExec, Json
CONSTANTS t1, t2, t3
T1 == {t1}
T2 == {t1, t2}
T3 == {t1, t2, t3}
C1 == {"c1"}
C2 == {"c1", "c2"}
\* vector: one finished single-thread execution with its fault parameters and the predicted observation
EmitHist == AllDone => PrintT(ToJson([m |-> "PongoExec", nchunks |-> NChunks, inclat |-> InclAt, hist |-> hist]))
\* interleavings as schedules: the sequence of thread steps is reconstructed by the harness from gate order; here only the verdict
viewNoHist == <<compiled, pc, sub, entry, ctx, failAt, failIn, wfail, wkind, buf, ibuf, sink, nwrites, res, runs>>
C3 == {"c1", "c2", "cbad"}
=============================================================================
