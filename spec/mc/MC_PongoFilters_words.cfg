INIT Init
NEXT Next
CONSTANTS
  Family = "words"
  MaxLen = 5
INVARIANTS Shapes EmitVec
