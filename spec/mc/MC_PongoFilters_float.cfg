INIT Init
NEXT Next
CONSTANTS
  Family = "float"
  MaxLen = 0
INVARIANTS Shapes EmitVec
