INIT Init
NEXT Next
CONSTANTS
  Family = "n2swap"
INVARIANTS PrinterUnambiguous ShortCircuit EmitVec
