INIT Init
NEXT Next
CONSTANTS
  Depth = 1
  Family = "for3"
INVARIANTS Balanced EmitVec
