---------------------------- MODULE MC_RenderC12 ----------------------------
(* C12 scoping: nestings (depth 3) of with / for / macro / set / if / include over the colliding names a, b with a  *)
(* probe before, inside and after every construct; plus the API-level rules about the caller's context and globals. *)
EXTENDS PongoRender, Json

CONSTANTS Family

T(s) == [t |-> "text", s |-> s]
Lit(v) == [t |-> "lit", v |-> v]
Var(p) == [t |-> "var", path |-> p]
Out(e) == [t |-> "out", e |-> e]
Set(x, e) == [t |-> "set", name |-> x, e |-> e]
NoDef == [t |-> "none"]

Probe == << T(<<"[">>), Out(Var(<<"a">>)), T(<<",">>), Out(Var(<<"b">>)), T(<<",">>), Out(Var(<<"g">>)), T(<<",">>), Out(Var(<<"gg">>)), T(<<"]">>) >>

Ctx == [a |-> S(<<"p">>), gg |-> S(<<"c">>), l2 |-> L(<<I(1), I(2)>>), l0 |-> L(<<>>)]
Globals == [g |-> S(<<"G">>), gg |-> S(<<"g">>)]
Files == [inc |-> Probe \o <<Set("a", Lit(I(8))), Set("q", Lit(I(1)))>> \o Probe,
          incq |-> <<Out(Var(<<"q">>))>>]

\* the constructs: Wrap(k, body) puts body inside construct k, with probes before and after
Kinds == <<"with_a", "with_b", "with_ab", "with_a_from_b", "for_a", "for_b", "macro_a", "macro_0", "if", "set_a", "set_b",
           "include", "include_only", "autoescape", "filtertag", "ifchanged", "spaceless_like_if", "macro_ab_omit", "macro_g_omit", "widthratio_a", "spaceless", "for_empty", "filter_length", "filter_upper", "macro_len">>

Wrap(k, body) ==
  CASE k = "with_a" -> << [t |-> "with", pairs |-> <<[name |-> "a", e |-> Lit(I(1))]>>, body |-> body] >>
    [] k = "with_b" -> << [t |-> "with", pairs |-> <<[name |-> "b", e |-> Lit(I(2))]>>, body |-> body] >>
    [] k = "with_ab" -> << [t |-> "with", pairs |-> <<[name |-> "a", e |-> Lit(I(3))], [name |-> "b", e |-> Var(<<"a">>)]>>, body |-> body] >>
    [] k = "with_a_from_b" -> << [t |-> "with", pairs |-> <<[name |-> "a", e |-> Var(<<"b">>)]>>, body |-> body] >>
    [] k = "for_a" -> << [t |-> "for", key |-> "a", val |-> "", e |-> Var(<<"l2">>), rev |-> FALSE, sorted |-> FALSE, body |-> body, empty |-> <<>>] >>
    [] k = "for_b" -> << [t |-> "for", key |-> "b", val |-> "", e |-> Var(<<"l2">>), rev |-> FALSE, sorted |-> FALSE, body |-> body, empty |-> <<>>] >>
    \* nothing to iterate over: the `empty` branch runs inside the loop's scope like the body would
    [] k = "for_empty" -> << [t |-> "for", key |-> "b", val |-> "", e |-> Var(<<"l0">>), rev |-> FALSE, sorted |-> FALSE, body |-> <<T(<<"n", "o">>)>>, empty |-> body] >>
    [] k = "macro_a" -> << [t |-> "macro", name |-> "m1", params |-> <<[name |-> "a", def |-> NoDef]>>, body |-> body, export |-> FALSE],
                           Out([t |-> "call", name |-> "m1", args |-> <<Lit(I(5))>>]) >>
    [] k = "macro_0" -> << [t |-> "macro", name |-> "m0", params |-> <<>>, body |-> body, export |-> FALSE],
                           Out([t |-> "call", name |-> "m0", args |-> <<>>]) >>
    \* parameters the call leaves out (no default): they are bound - to nothing - inside the macro and hide whatever the name means outside
    [] k = "macro_ab_omit" -> << [t |-> "macro", name |-> "m2", params |-> <<[name |-> "b", def |-> NoDef], [name |-> "a", def |-> NoDef]>>, body |-> body, export |-> FALSE],
                                 Out([t |-> "call", name |-> "m2", args |-> <<Lit(I(5))>>]), Out([t |-> "call", name |-> "m2", args |-> <<>>]) >>
    [] k = "macro_g_omit" -> << [t |-> "macro", name |-> "m3", params |-> <<[name |-> "g", def |-> NoDef], [name |-> "gg", def |-> Var(<<"g">>)]>>, body |-> body, export |-> FALSE],
                                Out([t |-> "call", name |-> "m3", args |-> <<>>]) >>
    [] k = "widthratio_a" -> << [t |-> "widthratio", a |-> Lit(I(1)), m |-> Lit(I(4)), w |-> Lit(I(10)), as |-> "a"] >> \o body     \* binds a (= 3) like set
    [] k = "spaceless" -> << [t |-> "spaceless", body |-> body] >>
    \* constructs that capture what their body renders and hand on something computed from it
    [] k = "filter_length" -> << [t |-> "filter", chain |-> <<[f |-> "length", arg |-> NoDef]>>, body |-> body] >>
    [] k = "filter_upper" -> << [t |-> "filter", chain |-> <<[f |-> "upper", arg |-> NoDef]>>, body |-> body] >>
    [] k = "macro_len" -> << [t |-> "macro", name |-> "ml", params |-> <<>>, body |-> body, export |-> FALSE],
                             Out([t |-> "filt", e |-> [t |-> "call", name |-> "ml", args |-> <<>>], chain |-> <<[f |-> "length", arg |-> NoDef]>>]) >>
    [] k = "if" -> << [t |-> "if", conds |-> <<Lit(I(1))>>, bodies |-> <<body>>] >>
    [] k = "set_a" -> <<Set("a", Lit(I(6)))>> \o body
    [] k = "set_b" -> <<Set("b", Var(<<"a">>))>> \o body
    [] k = "include" -> << [t |-> "include", name |-> "inc", pairs |-> <<[name |-> "b", e |-> Lit(I(4))]>>, only |-> FALSE] >> \o body
    [] k = "include_only" -> << [t |-> "include", name |-> "inc", pairs |-> <<[name |-> "b", e |-> Var(<<"a">>)]>>, only |-> TRUE],
                               [t |-> "include", name |-> "incq", pairs |-> <<>>, only |-> FALSE] >> \o body
    [] k = "autoescape" -> << [t |-> "autoescape", on |-> TRUE, body |-> body] >>
    [] k = "filtertag" -> << [t |-> "filter", chain |-> <<[f |-> "safe", arg |-> NoDef]>>, body |-> body] >>
    [] k = "ifchanged" -> << [t |-> "ifchanged", args |-> <<>>, body |-> body, els |-> <<>>] >>
    [] k = "spaceless_like_if" -> << [t |-> "if", conds |-> <<Lit(I(0))>>, bodies |-> << <<T(<<"no">>)>>, body >>] >>

Innermost == << Probe,
                <<Set("a", Lit(I(7)))>> \o Probe,
                <<Set("b", Lit(I(9))), Set("a", Var(<<"b">>))>> \o Probe,
                <<Out([t |-> "call", name |-> "top", args |-> <<>>])>> >>

TopMacro == [t |-> "macro", name |-> "top", params |-> <<>>, body |-> Probe, export |-> FALSE]

\* API family: context keys that are not identifiers, keys clashing with an exported macro, globals overridden by the context
ApiCtxs == << [a |-> S(<<"p">>)], [mx |-> I(1)], ("bad-key" :> I(1)), ("sp ace" :> I(1)) @@ [a |-> I(2)], ("x.y" :> I(3)), [g |-> S(<<"o">>)], <<>>,
             ("" :> I(4)), ("" :> I(4)) @@ [a |-> I(2)] >>          \* (the empty name is no identifier either)
ApiGlobals == << [g |-> S(<<"G">>)], <<>>, [mx |-> I(2)], [a |-> S(<<"ga">>), g |-> S(<<"G">>)] >>
ApiProgs == << Probe,
               <<[t |-> "macro", name |-> "mx", params |-> <<>>, body |-> <<T(<<"m">>)>>, export |-> TRUE]>> \o Probe,
               <<[t |-> "macro", name |-> "mx", params |-> <<>>, body |-> <<T(<<"m">>)>>, export |-> FALSE], Out([t |-> "call", name |-> "mx", args |-> <<>>])>> \o Probe >>

\* (family "sp", C15) spaceless nested in, around and next to constructs that capture their body: every spaceless block strips
\* the white space between tags of what *it* renders
SpKinds == {"spaceless", "filter_length", "filter_upper", "macro_len", "macro_0", "if", "for_b", "autoescape", "with_a"}
SpBody == << T(<<"<", "p", ">", " ", "<", "b", ">", " ", "TAB", "<", "i", ">", "NL", "<", "/", "i", ">", " ", "x", " ", "<", "/", "b", ">", " ", " ", "<", "/", "p", ">">>) >>
VARIABLES prog, go, actx, aglob
NestInit ==
  /\ \E k1 \in 1..Len(Kinds), k2 \in 1..Len(Kinds), k3 \in 1..Len(Kinds), inn \in 1..Len(Innermost) :
        /\ (Family \in {"d2", "incl"} => k3 = 9)        \* depth 2: the innermost construct is the transparent `if`
        /\ (Family = "incl" => Kinds[k2] \in {"include", "include_only"})   \* (C11) what an included template sees, from inside every construct
        /\ prog = <<TopMacro>> \o Probe \o Wrap(Kinds[k1], Probe \o Wrap(Kinds[k2], Probe \o Wrap(Kinds[k3], Innermost[inn]) \o Probe) \o Probe) \o Probe
Init ==
  /\ go = FALSE
  /\ IF Family = "api"
       THEN \E p \in 1..Len(ApiProgs), c \in 1..Len(ApiCtxs), g \in 1..Len(ApiGlobals) :
              prog = ApiProgs[p] /\ actx = ApiCtxs[c] /\ aglob = ApiGlobals[g]
       ELSE IF Family = "sp"
       THEN /\ actx = Ctx /\ aglob = Globals
            /\ \E k1 \in 1..Len(Kinds), k2 \in 1..Len(Kinds), k3 \in 1..Len(Kinds) :
                 /\ Kinds[k1] \in SpKinds /\ Kinds[k2] \in SpKinds /\ Kinds[k3] \in SpKinds
                 /\ "spaceless" \in {Kinds[k1], Kinds[k2], Kinds[k3]}
                 /\ prog = <<T(<<"<", "a", ">", " ">>)>> \o Wrap(Kinds[k1], SpBody \o Wrap(Kinds[k2], <<T(<<" ">>)>> \o Wrap(Kinds[k3], SpBody) \o SpBody)) \o <<T(<<" ", "<", "/", "a", ">">>)>>
       ELSE actx = Ctx /\ aglob = Globals /\ NestInit
Next == go = FALSE /\ go' = TRUE /\ UNCHANGED <<prog, actx, aglob>>

Res == ExecuteAPI(prog, actx, aglob, Files)
Balanced == go => (ScopesBalanced(Res) /\ DepthBalanced(Res))
\* C12 on the model: whatever the program does, the probe after the outermost construct shows the values of before it,
\* unless a `set` at the top level ran (set_a / set_b as the outermost construct, or an if around them)
EmitVec == go => PrintT(ToJson([m |-> "C12", prog |-> prog, ctx |-> actx, globals |-> aglob, files |-> Files,
                                out |-> Res.out, err |-> Res.err, evs |-> Res.evs]))
=============================================================================
