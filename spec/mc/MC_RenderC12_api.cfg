INIT Init
NEXT Next
CONSTANTS
  Family = "api"
INVARIANTS Balanced EmitVec
