SPECIFICATION MCSpec
CONSTANTS
  MaxFrags = 5
  Quick = FALSE
  Layout = FALSE
INVARIANTS CursorExact PositionExact HtmlExact Coverage TrimFlags LexesCleanly AgreeAtEnd Emit
