SPECIFICATION MCSpecFair
CONSTANTS
  MaxLen = 2
  Alpha = "text"
PROPERTIES Termination
