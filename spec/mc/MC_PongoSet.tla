---------------------------- MODULE MC_PongoSet ----------------------------
(* Bounded instantiations of PongoSet. *)
EXTENDS PongoSet, Json

CONSTANTS t1, t2, t3, s1, s2

\* ---- constant sets used by the configs
T1 == {t1}
T2 == {t1, t2}
T3 == {t1, t2, t3}
S1 == {s1}
S2 == {s1, s2}
N1 == {"a"}
N2 == {"a", "b"}
V2 == {"x", "y"}
V0 == {}

\* ---- vector emission: the history of a finished behaviour, once
EmitHist ==
  AllDone => PrintT(ToJson([m |-> "PongoSet", hist |-> hist, sched |-> sched,
                            final |-> [cache |-> cache, frozen |-> frozen, bannedT |-> bannedT, bannedF |-> bannedF,
                                       fetches |-> fetches]]))

\* sequential generator: stop environment steps once all threads are done so that terminal states are few
SeqConstraint == TRUE
=============================================================================
