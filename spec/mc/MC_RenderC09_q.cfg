INIT Init
NEXT Next
CONSTANTS
  Depth = 1
  Family = "nest"
INVARIANTS Balanced EmitVec
