INIT Init
NEXT Next
INVARIANT Emit
