INIT Init
NEXT Next
CONSTANTS
  Family = "sp"
INVARIANTS Balanced EmitVec
