INIT Init
NEXT Next
CONSTANTS
  Layouts = {0, 1, 2, 3, 4, 5, 6, 7, 8, 9, 10, 11, 12, 13, 14, 15}
  NestedKind = "include_if"
INVARIANTS FirstWins EmitVec
