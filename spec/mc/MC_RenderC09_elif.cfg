INIT Init
NEXT Next
CONSTANTS
  Depth = 1
  Family = "elif"
INVARIANTS Balanced EmitVec
