\* sandbox histories: 1 thread (the ban API is set-up time, sequential), 2 sets, 2 names, <=4 operations
SPECIFICATION SpecBan
CONSTANTS
  t1 = t1
  t2 = t2
  t3 = t3
  s1 = s1
  s2 = s2
  Threads <- T1
  Sets <- S2
  Names <- N1
  MaxVer = 1
  MaxOps = 3
  MaxEnv = 0
  Vocab <- V2
VIEW viewNoSched
INVARIANTS TypeOK BanVerdictStable BanEffect CompileVerdict EmitHist
PROPERTIES FrozenAfterFirst BansOnlyGrow SetsIndependent
