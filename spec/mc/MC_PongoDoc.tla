----------------------------- MODULE MC_PongoDoc -----------------------------
EXTENDS PongoDoc, Json

CONSTANTS CtlText,   \* TRUE: literal text made of control bytes and white space (what is white space for trimming: SP TAB CR LF only)
          MaxFrags, Quick, Layout   \* Layout: TRUE = dashes and options vary (C15); FALSE = plain documents only (C06)

WS == IF Quick THEN {<<32>>, <<10>>, <<32, 10, 9>>, <<13, 10>>, <<9, 13>>, <<10, 10>>, <<10, 32, 10>>}      \* (incl. blank lines between tag-only lines)
               ELSE {<<32>>, <<9>>, <<10>>, <<13, 10>>, <<32, 10, 9, 32>>, <<10, 10>>, <<32, 32>>, <<9, 13>>, <<10, 32, 10>>}
B == BOOLEAN
F(k, b, l, r) == [k |-> k, b |-> b, l |-> l, r |-> r]

\* what a comment tag can have inside: nothing of it is interpreted, and the first {% endcomment %} closes it
CBodyZ == <<123,123,32,122,32,125,125>>                                   \* {{ z }}
CBodies == {<<123,37,32,99,111,109,109,101,110,116,32,37,125>>,                  \* {% comment %}   (a comment tag does not nest)
            <<123,37,32,105,102,32,49,32,37,125>>,                                \* {% if 1 %}
            <<123,37,32,101,110,100,105,102,32,37,125,120>>,                                 \* {% endif %}x
            <<123,37,32,110,111,115,117,99,104,116,97,103,32,49,32,43,32,37,125>>,                           \* {% nosuchtag 1 + %}
            <<123,123,32,49,32,43,32,125,125,123,37,32,101,108,115,101,32,37,125>>}                           \* {{ 1 + }}{% else %}
CBodiesQ == {b \in CBodies : Len(b) \in {12, 13}}      \* (quick) the nested comment tag and the stray endif
TextFrags == IF CtlText
               THEN {F("ws", w, FALSE, FALSE) : w \in {<<32>>, <<10>>, <<9, 13>>}}
                    \cup {F("text", b, FALSE, FALSE) : b \in {<<1>>, <<32, 1, 32>>, <<11, 32>>, <<10, 12>>, <<27, 91>>, <<0, 9>>, <<31>>, <<127, 32>>, <<194, 160>>}}
               ELSE {F("ws", w, FALSE, FALSE) : w \in WS} \cup {F("text", <<97>>, FALSE, FALSE), F("text", <<97, 32, 98>>, FALSE, FALSE)}
DB == IF Layout THEN B ELSE {FALSE}
Constructs == {F(k, <<>>, l, r) : k \in {"var", "set", "ifopen", "ifclose"}, l \in DB, r \in DB}
          \cup {F("ttag", <<>>, FALSE, FALSE), F("ctag", CBodyZ, FALSE, FALSE)} \cup (IF Layout THEN {F("ctag", CBodyZ, FALSE, TRUE)} ELSE {F("ctag", cb, FALSE, FALSE) : cb \in (IF Quick THEN CBodiesQ ELSE CBodies)})
Inert == {F("comment", <<>>, FALSE, FALSE), F("verb", <<32, 123, 123, 32, 120, 10>>, FALSE, FALSE), F("verb", <<>>, FALSE, FALSE)}
AllFrags == TextFrags \cup Constructs \cup Inert

\* if/endif balanced; comments and verbatim blocks only next to non-whitespace text or the document boundary
RECURSIVE Depth(_, _)
Depth(fs, i) == IF i = 0 THEN 0 ELSE Depth(fs, i - 1) + (IF fs[i].k = "ifopen" THEN 1 ELSE IF fs[i].k = "ifclose" THEN -1 ELSE 0)
WellFormed(fs) ==
  /\ \A i \in 1..Len(fs) : Depth(fs, i) >= 0
  /\ Depth(fs, Len(fs)) = 0
  /\ \A i \in 1..Len(fs) : fs[i] \in Inert =>
        /\ (IF i > 1 THEN fs[i - 1].k = "text" ELSE TRUE)
        /\ (IF i < Len(fs) THEN fs[i + 1].k = "text" ELSE TRUE)
  /\ \A i \in 1..Len(fs) : IF i < Len(fs) THEN ~(fs[i].k = "text" /\ fs[i + 1].k = "text") ELSE TRUE

Opts == [trim : DB, lstrip : DB]

VARIABLE printed
mcVars == <<lexVars, docVars, printed>>

MCInit ==
  /\ \E n \in 0..MaxFrags : \E fs \in [1..n -> AllFrags] : WellFormed(fs) /\ frags = fs
  /\ opts \in Opts
  /\ LexInit(DocBytes(frags))
  /\ printed = FALSE

MCNext ==
  \/ LexNext /\ UNCHANGED <<docVars, printed>>
  \/ LexDone /\ ~printed /\ printed' = TRUE /\ UNCHANGED <<lexVars, docVars>>

MCSpec == MCInit /\ [][MCNext]_mcVars

Emit ==
  (LexDone /\ ~printed) =>
     PrintT(ToJson([m |-> "PongoDoc", src |-> src, stripped |-> StrippedBytes(opts), opts |-> opts,
                    out |-> FragOutput(opts), nfrags |-> Len(frags)]))
=============================================================================
