INIT Init
NEXT Next
CONSTANTS
  Family = "recplace"
  MaxParams = 4
INVARIANTS Balanced RecursionBounded ImportEqualsLocal EmitVec
