INIT Init
NEXT Next
CONSTANTS
  Family = "incl"
INVARIANTS Balanced EmitVec
