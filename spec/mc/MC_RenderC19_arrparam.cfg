INIT Init
NEXT Next
CONSTANTS
  Family = "arrparam"
  MaxChain = 2
  RegFilters = {}
INVARIANTS Balanced EmitVec
