INIT Init
NEXT Next
CONSTANTS
  Depth = 1
  Family = "elif3"
INVARIANTS Balanced EmitVec
