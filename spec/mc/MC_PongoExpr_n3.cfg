INIT Init
NEXT Next
CONSTANTS
  Family = "n3"
INVARIANTS PrinterUnambiguous ShortCircuit EmitVec
