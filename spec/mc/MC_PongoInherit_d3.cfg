INIT Init
NEXT Next
CONSTANTS
  Depth = 3
  Shapes = {0, 1, 2, 4, 5, 6}
INVARIANTS DesignOK EmitVec
