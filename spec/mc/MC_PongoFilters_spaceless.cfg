INIT Init
NEXT Next
CONSTANTS
  Family = "spaceless"
  MaxLen = 6
INVARIANTS Shapes EmitVec
