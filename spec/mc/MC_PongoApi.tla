------------------------------ MODULE MC_PongoApi ------------------------------
EXTENDS PongoApi, Json
Init == GenInit /\ ApiInit
Next == GenNext /\ UNCHANGED apiVars
Emit == GenDone => PrintT(ToJson([m |-> "PongoApi", toks |-> form]))
\* the API machine on its own (its two safety properties)
ApiSpecInit == ApiInit /\ form = <<>> /\ steps = 0
ApiSpecNext == ApiNext /\ UNCHANGED genVars
=============================================================================
