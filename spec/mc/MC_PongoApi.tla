------------------------------ MODULE MC_PongoApi ------------------------------
EXTENDS PongoApi, Json
Init == GenInit /\ ApiInit
Next == GenNext /\ UNCHANGED apiVars
Emit == GenDone => PrintT(ToJson([m |-> "PongoApi", toks |-> form]))
\* the systematic part of the quantifier "all programs x all contexts": every operator between every pair of names of the
\* value universe, every registered filter on every name with every name (and a few literals) as parameter, every name
\* as the operand of the looping / membership / indexing constructs
CONSTANTS CrossFamily
RecursionRoutes == <<
  "{% macro cb(n) %}.{% include \"/callback\" %}{% endmacro %}{{ cb(1) }}",
  "{% macro cb(n) %}.{% ssi \"/callback\" parsed %}{% endmacro %}{{ cb(1) }}",
  "{% macro cb(n) %}.{% include \"/call\"|add:\"back\" %}{% endmacro %}{{ cb(1) }}",
  "{% import \"/cblib\" cb %}{{ cb(1) }}",
  "{% import \"/cblib\" cb as z, cb %}{{ z(1) }}",
  "{% import \"/cblib\" cb as z %}{{ z(1) }}",
  "{% import \"/cblibssi\" cb %}{{ cb(1) }}",
  "{% macro cb(n) %}{% with q=cb(n) %}{{ q }}{% endwith %}{% endmacro %}{{ cb(1) }}",
  "{% macro cb(n) %}{% filter upper %}{{ cb(n) }}{% endfilter %}{% endmacro %}{{ cb(1) }}",
  "{% macro cb(n) %}{% for i in \"ab\" %}{{ cb(i) }}{% endfor %}{% endmacro %}{{ cb(1) }}",
  "{% macro cb(n) %}{% include \"/callback\" with n=cb %}{% endmacro %}{{ cb(1) }}",
  "{% macro cb(n) %}{% include \"/callback\" only %}{% endmacro %}{{ cb(1) }}",
  "{% macro cb(n) %}{% include \"/callback\" with cb=cb only %}{% endmacro %}{{ cb(1) }}",
  "{% macro a(n) %}{{ b(n) }}{% endmacro %}{% macro b(n) %}{% include \"/callback2\" %}{% endmacro %}{{ a(1) }}",
  "{% macro cb(n) %}{% set r = cb(n) %}{% endmacro %}{% block b %}{{ cb(1) }}{% endblock %}",
  "{% extends \"/cbbase\" %}{% block b %}{% macro cb(n) %}{% include \"/callback\" %}{% endmacro %}{{ cb(1) }}{% endblock %}",
  "{% macro cb(n) %}{% include \"/callbackinc\" %}{% endmacro %}{{ cb(1) }}",
  "{% for i in \"ab\" %}{% macro cb(n) %}{% include \"/callback\" %}{% endmacro %}{{ cb(i) }}{% endfor %}",
  "{% macro cb(n=cb2()) %}x{% endmacro %}{% macro cb2(n) %}{% include \"/callback\" %}{% endmacro %}{{ cb() }}" >>
Lits == {"0", "1", "\"a\"", "\"0:1\"", "nope", "-1", "99999999999", "1.5", "0.5", "0.0", "\"0.5\""}
CrossInit ==
  /\ ApiInit /\ steps = 0
  /\ CASE CrossFamily = "ops" ->
            (\E a \in CtxNames \cup Lits, b \in CtxNames \cup Lits, op \in Ops : form = <<"{{ ", a, " ", op, " ", b, " }}{% if ", b, " ", op, " ", a, " %}x{% endif %}">>)
       [] CrossFamily = "filters" ->
            (\E a \in CtxNames, f \in RegFilters, b \in CtxNames \cup Lits : form = <<"{{ ", a, "|", f, ":", b, " }}{{ ", a, "|", f, " }}">>)
       [] CrossFamily = "constructs" ->
            (\E a \in CtxNames, b \in CtxNames \cup Lits, k \in 1..8 :
               form = CASE k = 1 -> <<"{% for i in ", a, " %}{{ i }}{{ forloop.Last }}{% for j in i %}{{ j }}{% endfor %}{% empty %}e{% endfor %}">>
                        [] k = 2 -> <<"{% for k, v in ", a, " sorted %}{{ k }}{{ v }}{% endfor %}{% for k in ", a, " reversed sorted %}{{ k }}{% endfor %}">>
                        [] k = 3 -> <<"{{ ", a, "[", b, "] }}{{ ", a, ".", "0", " }}{{ ", a, ".", "F", " }}{{ ", a, ".", "nope.x", " }}">>
                        [] k = 4 -> <<"{{ ", a, "(", b, ") }}{{ ", a, "() }}{{ ", a, "(", b, ", ", b, ") }}">>
                        [] k = 5 -> <<"{% ifequal ", a, " ", b, " %}=", "{% endifequal %}{% ifchanged ", a, " %}c{% endifchanged %}{% firstof ", a, " ", b, " %}">>
                        [] k = 6 -> <<"{% widthratio ", a, " ", b, " 100 %}{% cycle ", a, " ", b, " %}{% with z=", a, " %}{{ z|length }}{% endwith %}">>
                        [] k = 7 -> <<"{% include ", a, " %}">>
                        [] k = 8 -> <<"{% filter ", "join:", b, "|slice:", b, " %}{{ ", a, " }}{% endfilter %}{{ [", a, ", ", b, "]|join:", b, " }}">>)
       [] CrossFamily = "recursion" ->
            \* every way a macro reaches itself again without a base case: directly, through a template it includes (which sees the
            \* includer's names, the macro among them), through ssi, an import, a block; the files are in the harness (apiFiles)
            (\E k \in 1..Len(RecursionRoutes) : form = <<RecursionRoutes[k]>>)
\* (family "names") every construct that binds a name x every name the engine or another construct binds or reads x every construct
\* that reads or rebinds it afterwards, inside the binder's scope
BindNames == {"forloop", "block", "a", "i", "m", "lm", "true", "x", "nope"}
Binders(n, v, body) ==
  << <<"{% with ", n, "=", v, " %}">> \o body \o <<"{% endwith %}">>, <<"{% set ", n, " = ", v, " %}">> \o body, <<"{% for ", n, " in ", v, " %}">> \o body \o <<"{% endfor %}">>,
     <<"{% for k, ", n, " in ", v, " %}">> \o body \o <<"{% endfor %}">>, <<"{% macro ", n, "(", n, ") %}">> \o body \o <<"{% endmacro %}{{ ", n, "(", v, ") }}{{ ", n, "() }}">>,
     <<"{% macro mm(", n, "=", v, ") %}">> \o body \o <<"{% endmacro %}{{ mm() }}{{ mm(", n, ") }}">>,
     <<"{% for q in \"abc\" %}{% cycle ", v, " ", n, " as ", n, " %}">> \o body \o <<"{% endfor %}">>, <<"{% for q in \"abc\" %}{% cycle ", n, " as ", n, " silent %}">> \o body \o <<"{% endfor %}">>,
     <<"{% widthratio 1 2 ", v, " as ", n, " %}">> \o body, <<"{% import \"/lib\" lm as ", n, " %}">> \o body, <<"{% block ", n, " %}">> \o body \o <<"{% endblock %}">>,
     <<"{% with w=1 %}{% set ", n, " = ", v, " %}{% endwith %}">> \o body >>
Users(n) ==
  << <<"{{ ", n, " }}{{ ", n, ".Counter }}{{ ", n, ".Super }}{{ ", n, "() }}">>, <<"{% for z in \"ab\" %}{{ forloop.Parentloop.Counter }}{{ ", n, " }}{% for y in z %}{{ forloop.Parentloop.Parentloop }}{% endfor %}{% endfor %}">>,
     <<"{% cycle ", n, " %}{% cycle ", n, " 1 as ", n, " %}{% cycle ", n, " %}">>, <<"{% block bb %}{{ block.Super }}{{ ", n, " }}{% endblock %}">>,
     <<"{% macro u() %}{{ ", n, " }}{% endmacro %}{{ u() }}{% include \"/inc\" with ", n, "=1 %}">>, <<"{% if ", n, " %}{% ifchanged ", n, " %}c{% endifchanged %}{% endif %}{% firstof ", n, " %}">> >>
CrossInitNames ==
  /\ ApiInit /\ steps = 0
  /\ \E n \in BindNames, v \in {"1", "\"s\"", "rlist", "forloop", "nope"}, b \in 1..12, u \in 1..6 : form = Binders(n, v, Users(n)[u])[b]
CrossNext == FALSE /\ UNCHANGED <<apiVars, genVars>>
CrossEmit == PrintT(ToJson([m |-> "PongoApi", toks |-> form]))

\* the API machine on its own (its two safety properties)
ApiSpecInit == ApiInit /\ form = <<>> /\ steps = 0
ApiSpecNext == ApiNext /\ UNCHANGED genVars
=============================================================================
