------------------------------ MODULE MC_PongoApi ------------------------------
EXTENDS PongoApi, Json
Init == GenInit /\ ApiInit
Next == GenNext /\ UNCHANGED apiVars
Emit == GenDone => PrintT(ToJson([m |-> "PongoApi", toks |-> form]))
\* the systematic part of the quantifier "all programs x all contexts": every operator between every pair of names of the
\* value universe, every registered filter on every name with every name (and a few literals) as parameter, every name
\* as the operand of the looping / membership / indexing constructs
CONSTANTS CrossFamily
Lits == {"0", "1", "\"a\"", "\"0:1\"", "nope", "-1", "99999999999", "1.5"}
CrossInit ==
  /\ ApiInit /\ steps = 0
  /\ CASE CrossFamily = "ops" ->
            (\E a \in CtxNames \cup Lits, b \in CtxNames \cup Lits, op \in Ops : form = <<"{{ ", a, " ", op, " ", b, " }}{% if ", b, " ", op, " ", a, " %}x{% endif %}">>)
       [] CrossFamily = "filters" ->
            (\E a \in CtxNames, f \in RegFilters, b \in CtxNames \cup Lits : form = <<"{{ ", a, "|", f, ":", b, " }}{{ ", a, "|", f, " }}">>)
       [] CrossFamily = "constructs" ->
            (\E a \in CtxNames, b \in CtxNames \cup Lits, k \in 1..8 :
               form = CASE k = 1 -> <<"{% for i in ", a, " %}{{ i }}{{ forloop.Last }}{% for j in i %}{{ j }}{% endfor %}{% empty %}e{% endfor %}">>
                        [] k = 2 -> <<"{% for k, v in ", a, " sorted %}{{ k }}{{ v }}{% endfor %}{% for k in ", a, " reversed sorted %}{{ k }}{% endfor %}">>
                        [] k = 3 -> <<"{{ ", a, "[", b, "] }}{{ ", a, ".", "0", " }}{{ ", a, ".", "F", " }}{{ ", a, ".", "nope.x", " }}">>
                        [] k = 4 -> <<"{{ ", a, "(", b, ") }}{{ ", a, "() }}{{ ", a, "(", b, ", ", b, ") }}">>
                        [] k = 5 -> <<"{% ifequal ", a, " ", b, " %}=", "{% endifequal %}{% ifchanged ", a, " %}c{% endifchanged %}{% firstof ", a, " ", b, " %}">>
                        [] k = 6 -> <<"{% widthratio ", a, " ", b, " 100 %}{% cycle ", a, " ", b, " %}{% with z=", a, " %}{{ z|length }}{% endwith %}">>
                        [] k = 7 -> <<"{% include ", a, " %}">>
                        [] k = 8 -> <<"{% filter ", "join:", b, "|slice:", b, " %}{{ ", a, " }}{% endfilter %}{{ [", a, ", ", b, "]|join:", b, " }}">>)
CrossNext == FALSE /\ UNCHANGED <<apiVars, genVars>>
CrossEmit == PrintT(ToJson([m |-> "PongoApi", toks |-> form]))

\* the API machine on its own (its two safety properties)
ApiSpecInit == ApiInit /\ form = <<>> /\ steps = 0
ApiSpecNext == ApiNext /\ UNCHANGED genVars
=============================================================================
