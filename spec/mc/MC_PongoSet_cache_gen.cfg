\* behaviours for replay: used with -simulate (random schedules) and exhaustively with small constants
SPECIFICATION SpecCache
CONSTANTS
  t1 = t1
  t2 = t2
  t3 = t3
  s1 = s1
  s2 = s2
  Threads <- T2
  Sets <- S2
  Names <- N2
  MaxVer = 2
  MaxOps = 3
  MaxEnv = 2
  Vocab <- V0
INVARIANTS EmitHist
