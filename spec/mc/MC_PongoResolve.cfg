INIT Init
NEXT Next
INVARIANTS Total EmitVec
