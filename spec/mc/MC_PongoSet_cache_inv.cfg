\* 2 threads x 2 ops, 1 set, 1 name, all invariants incl. the history-based one (no VIEW)
SPECIFICATION SpecCache
CONSTANTS
  t1 = t1
  t2 = t2
  t3 = t3
  s1 = s1
  s2 = s2
  Threads <- T2
  Sets <- S1
  Names <- N1
  MaxVer = 1
  MaxOps = 2
  MaxEnv = 1
  Vocab <- V0
VIEW viewNoSched
INVARIANTS TypeOK MutexDiscipline CompileOnce CacheSound SameUntilCleaned
PROPERTIES DebugBypasses SetsIndependent CleanOnlyUnderLock
