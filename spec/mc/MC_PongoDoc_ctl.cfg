SPECIFICATION MCSpec
CONSTANTS
  MaxFrags = 3
  Quick = TRUE
  CtlText = TRUE
  Layout = TRUE
INVARIANTS CursorExact PositionExact HtmlExact Coverage TrimFlags LexesCleanly AgreeAtEnd Emit
