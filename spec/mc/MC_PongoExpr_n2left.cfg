INIT Init
NEXT Next
CONSTANTS
  Family = "n2left"
INVARIANTS PrinterUnambiguous ShortCircuit EmitVec
