---------------------------- MODULE MC_PongoInherit ----------------------------
EXTENDS PongoInherit, Json
CONSTANTS Depth,         \* number of levels above the base (chain L0..LDepth)
          Shapes         \* definition shapes used (0 = absent, 1..6 see Body)

Lv(i) == <<"0", "1", "2", "3", "4", "5">>[i + 1]
Other(x) == IF x = "a" THEN "b" ELSE "a"
Body(lv, x, shape) ==
  CASE shape = 1 -> <<Text(Lv(lv) \o x), Probe>>
    [] shape = 2 -> <<Text(Lv(lv) \o x), Super>>
    [] shape = 3 -> <<Super, Text(Lv(lv) \o x), Super>>
    [] shape = 4 -> <<Text(Lv(lv) \o x \o "<"), Block(Other(x), "none"), Super, Text(">")>>
    [] shape = 5 -> <<Block(Other(x), "if"), Text(Lv(lv) \o x)>>
    [] shape = 6 -> <<Block(Other(x), "for"), Super>>
    [] shape = 7 -> <<Text(Lv(lv) \o x), LoopVar, Super>>
    [] shape = 8 -> <<Super, LoopVar>>

Nested(sh) == sh \in {4, 5, 6}          \* shapes whose body contains the other block
ValidLevel(aS, bS) ==
  /\ ~(Nested(aS) /\ Nested(bS))
  /\ (Nested(aS) => bS \in {1, 2, 3, 7, 8})
  /\ (Nested(bS) => aS \in {1, 2, 3, 7, 8})

Level(lv, aS, bS, wa, wb) ==
  LET blocks == (IF aS > 0 THEN [a |-> Body(lv, "a", aS)] ELSE <<>>) @@ (IF bS > 0 THEN [b |-> Body(lv, "b", bS)] ELSE <<>>) IN
  LET topA == IF aS > 0 /\ ~Nested(bS) THEN <<Block("a", wa)>> ELSE <<>> IN
  LET topB == IF bS > 0 /\ ~Nested(aS) THEN <<Block("b", wb)>> ELSE <<>> IN
  \* (templates that extend define a macro and a variable outside their blocks; the base - and shape 1 bodies - probe for them)
  [doc |-> (IF lv > 0 THEN <<Def>> ELSE <<>>) \o <<Text("j" \o Lv(lv))>> \o topA \o <<Text("-")>> \o topB \o <<Text("k" \o Lv(lv))>> \o (IF lv = 0 THEN <<Probe>> ELSE <<>>),
   blocks |-> blocks]

VARIABLES chain, go
Init ==
  /\ go = FALSE
  /\ \E a0 \in Shapes, b0 \in Shapes, wa \in {"none", "if"}, wb \in {"none", "for"} :
       /\ ValidLevel(a0, b0)
       /\ \E a1 \in Shapes, b1 \in Shapes :
            /\ ValidLevel(a1, b1)
            /\ IF Depth = 1 THEN chain = <<Level(0, a0, b0, wa, wb), Level(1, a1, b1, "none", "none")>>
               ELSE \E a2 \in Shapes, b2 \in Shapes :
                      /\ ValidLevel(a2, b2)
                      /\ IF Depth = 2 THEN chain = <<Level(0, a0, b0, wa, wb), Level(1, a1, b1, "none", "none"), Level(2, a2, b2, "none", "none")>>
                         ELSE \E a3 \in {0, 1, 2, 4}, b3 \in {0, 2, 3} :
                                /\ ValidLevel(a3, b3) /\ wa = "none" /\ wb = "for"
                                /\ chain = <<Level(0, a0, b0, wa, wb), Level(1, a1, b1, "none", "none"), Level(2, a2, b2, "none", "none"),
                                             Level(3, a3, b3, "none", "none")>>
Next == go = FALSE /\ go' = TRUE /\ UNCHANGED chain

DesignOK == go => (ParentUnaffected(chain) /\ OutsideIgnored(chain))
\* (checked in the smaller configurations: it renders every level once more per block of the base document)
BlocksOK == go => (BlocksAgreeWithRender(chain) /\ BlocksInherited(chain))
Req3 == <<"a", "b", "q">>
Blk(k) == [i \in 1..3 |-> [n |-> Req3[i], def |-> Defined(chain, k, Req3[i]),
                            out |-> IF Defined(chain, k, Req3[i]) THEN RenderBlock(chain, k, Req3[i]) ELSE <<>>]]
EmitVec == go => PrintT(ToJson([m |-> "PongoInherit", chain |-> chain, out |-> [k \in 1..Len(chain) |-> Render(chain, k)],
                                  blk |-> [k \in 1..Len(chain) |-> Blk(k)]]))
=============================================================================
