---------------------------- MODULE MC_PongoFilters ----------------------------
EXTENDS PongoFilters, Json
CONSTANTS Family, MaxLen

Base12 == <<"a", "EACUTE", "c", " ", "CJK", "f", "g", "EMOJI", "i", " ", "k", "l">>      \* 12 characters, 4 of them multi-byte
Ints7 == <<I(3), I(1), I(4), I(1), I(5), I(9), I(2)>>
Bounds == {NoneB} \cup (0 - 8)..8
BoundV(x) == IF x = NoneB THEN Nil ELSE I(x)
Texts == << <<>>, <<"a">>, <<"a", "b", " ", "c">>, <<" ", "a", "NL", "b", " ", " ", "c", "d", "NL">>, <<"EACUTE", "b", "CJK">>,
            <<"a", " ", "b", " ", "c", " ", "d", " ", "e">>, <<"x", "NL", "NL", "y">>, <<"a", ",", "b", ",", ",", "c">> >>
Seqs == << L(<<>>), L(<<I(1)>>), L(<<S(<<"a">>), S(<<"b", "c">>), I(3)>>), S(<<>>), S(<<"x", "EACUTE", "z">>), I(5), Nil >>
Nums == << I(0), I(1), I(2), I(7), I(10), I(12), I(120), I(0 - 3), S(<<"a">>), S(<<>>), Nil, B(TRUE), B(FALSE), L(<<>>), L(<<I(1)>>) >>
PlArgs == << Nil, S(<<"e", "s">>), S(<<"y", ",", "i", "e", "s">>), S(<<"a", ",", "b", ",", "c">>) >>
YnArgs == << Nil, S(<<"y", ",", "n">>), S(<<"y", ",", "n", ",", "m">>), S(<<"y">>), S(<<"a", ",", "b", ",", "c", ",", "d">>) >>

\* floatformat: every multiple of 1/8 in -3..3 (exact in binary: ties are settled) and values around the rounding boundaries
FixVals == {125 * k : k \in (0 - 24)..24} \cup {1, 0 - 1, 4, 5, 6, 15, 49, 51, 994, 995, 996, 999, 1001, 1234, 1236, 34232, 34260, 39560, 0 - 1234, 9995, 9999, 99999, 0 - 99999}
FfArgs == << Nil, I(0), I(1), I(2), I(3), I(4), I(5), I(0 - 1), I(0 - 2), I(0 - 3), I(0 - 4), I(1000 + 1), S(<<"0">>), S(<<"-", "3">>), S(<<"2">>), S(<<"x">>), S(<<>>) >>
StrNums == << <<"0", "1", "0">>, <<"0", "0", "7">>, <<"0", "1", "2">>, <<"0", "8">>, <<"0">>, <<"0", "0">>, <<"-", "0", "1", "0">>, <<"1", "0">>, <<"3">>, <<"x">>, <<"0", "x", "1", "0">>, <<>> >>
FmtVals == {I(0), I(7), I(0 - 7), I(12345), S(<<>>), S(<<"a", "b">>), S(<<"EACUTE", "CJK">>), S(<<"a", "b", "c", "d", "e", "f">>)}
\* the argument as written: the format string of a spec record
SpecArg(spec) == S(spec.pre \o <<"%">> \o (IF spec.flag = "" THEN <<>> ELSE <<spec.flag>>) \o (IF spec.width = 0 THEN <<>> ELSE NatStr(spec.width)) \o <<spec.verb>> \o spec.post)
Layouts == << <<"2006", "-", "01", "-", "02">>, <<"15", ":", "04", ":", "05">>, <<"02", " ", "Jan", " ", "2006", ",", " ", "Mon">>, <<"3", ":", "04", "PM">>, <<>>, <<"x", "y">>,
              <<"2006", "2006">>, <<"02", "/", "01", "/", "2006", " ", "15", ":", "04">> >>
LayoutArg(l) == S(Flatten3([j \in 1..Len(l) |-> [c \in 1..1 |-> l[j]]]))

\* C17 alphabets
EscAlpha == <<"&", "<", ">", "\"", "'", "a", "EACUTE", ";", "#", "3", "BAD">>
SlashAlpha == <<"\\", "\"", "'", "a", "n", " ", "BAD", "EACUTE">>      \* (BAD: a byte that is no valid UTF-8 - kept as it is)
JsAlpha == <<"a", "Z", " ", "/", "<", "\"", "'", "\\", "r", "n", "0", "NL", "EACUTE", "EURO", "EMOJI", "FFFD", "-", ";">>
UrlAlpha == <<"a", "7", "-", "_", ".", "~", " ", "/", "&", "=", "?", "%", "+", "EACUTE", "CJK", "EMOJI", "#", ":", "BAD", "'", "*", "(">>
WordAlpha == <<"a", "B", "z", " ", "NL", "'", "-", "7", "EACUTE", "_">>
TagAlpha == <<"<", ">", "/", "b", "i", "a", " ", "NL">>
CaseAlpha == <<"<", ">", "/", "b", "B">>        \* a tag name is matched as it is written: b is not B
SpAlpha == <<"<", ">", " ", "NL", "a", "TAB">>

VARIABLES vec, go
Vec(f, in, arg, out) == [f |-> f, in |-> in, arg |-> arg, out |-> out]
StrsUpTo(alpha, n) == UNION {[1..k -> 1..Len(alpha)] : k \in 0..n}
Mk(alpha, w) == [i \in 1..Len(w) |-> alpha[w[i]]]

Init ==
  /\ go = FALSE
  /\ CASE Family = "slice" -> (
            \E n \in 0..6, a \in Bounds, b \in Bounds, kind \in {"str", "list"} :
              LET v == IF kind = "str" THEN S(SubSeq(Base12, 1, n)) ELSE L(SubSeq(Ints7, 1, n)) IN
              vec = Vec("slice", v, P(BoundV(a), BoundV(b)), FilterRef("slice", v, P(BoundV(a), BoundV(b)))))
       [] Family = "pad" -> (
            \E f \in {"center", "ljust", "rjust"}, n \in 0..12, w \in (0 - 6)..20 :
              \/ vec = Vec(f, S(SubSeq(Base12, 1, n)), I(w), FilterRef(f, S(SubSeq(Base12, 1, n)), I(w)))
              \* numbers are padded as the text they are written as
              \/ (n <= 3 /\ w <= 8 /\ vec = Vec(f, I(<<5, 42, 0 - 7, 1234>>[n + 1]), I(w), FilterRef(f, I(<<5, 42, 0 - 7, 1234>>[n + 1]), I(w)))))
       [] Family = "trunc" -> (
            \/ \E n \in 0..12, w \in (0 - 1)..14 : vec = Vec("truncatechars", S(SubSeq(Base12, 1, n)), I(w), FilterRef("truncatechars", S(SubSeq(Base12, 1, n)), I(w)))
            \/ \E t \in 1..Len(Texts), w \in (0 - 1)..6, f \in {"truncatewords", "wordwrap"} : vec = Vec(f, S(Texts[t]), I(w), FilterRef(f, S(Texts[t]), I(w))))
       [] Family = "seq" -> (
            \/ \E t \in 1..Len(Texts), f \in {"first", "last", "length", "make_list", "wordcount", "linenumbers", "linebreaksbr", "capfirst", "upper", "lower"} :
                 vec = Vec(f, S(Texts[t]), Nil, FilterRef(f, S(Texts[t]), Nil))
            \/ \E q \in 1..Len(Seqs), f \in {"first", "last", "length"} : vec = Vec(f, Seqs[q], Nil, FilterRef(f, Seqs[q], Nil))
            \/ \E q \in 1..Len(Seqs), n \in 0..4 : vec = Vec("length_is", Seqs[q], I(n), FilterRef("length_is", Seqs[q], I(n)))
            \/ \E q \in 1..5, sep \in {<<",">>, <<"-", "-">>, <<"EACUTE">>, <<>>} : vec = Vec("join", Seqs[q], S(sep), FilterRef("join", Seqs[q], S(sep)))
            \/ \E t \in 1..Len(Texts), sub \in {<<"a", " ">>, <<" ", " ">>, <<",", ",">>, <<"b", " ", "c">>, <<>>, <<"EACUTE", "b">>} :
                 vec = Vec("cut", S(Texts[t]), S(sub), FilterRef("cut", S(Texts[t]), S(sub)))
            \/ \E t \in 1..Len(Texts), c \in {",", " ", "NL", "a", "EACUTE"} :
                 \/ vec = Vec("cut", S(Texts[t]), S(<<c>>), FilterRef("cut", S(Texts[t]), S(<<c>>)))
                 \/ vec = Vec("split", S(Texts[t]), S(<<c>>), FilterRef("split", S(Texts[t]), S(<<c>>))))
       [] Family = "num" -> (
            \/ \E a \in 1..Len(Nums), b \in 1..Len(Nums) :
                 \/ (Nums[a].k \in {"int", "str"} /\ Nums[b].k \in {"int", "str"} /\ vec = Vec("add", Nums[a], Nums[b], FilterRef("add", Nums[a], Nums[b])))
                 \/ vec = Vec("default", Nums[a], Nums[b], FilterRef("default", Nums[a], Nums[b]))
                 \/ vec = Vec("default_if_none", Nums[a], Nums[b], FilterRef("default_if_none", Nums[a], Nums[b]))
            \/ \E a \in (0 - 12)..24, b \in (0 - 4)..6 : vec = Vec("divisibleby", I(a), I(b), FilterRef("divisibleby", I(a), I(b)))
            \/ \E a \in {0, 5, 42, 907, 1234, 0 - 7, 0 - 42, 0 - 907, 0 - 1200}, b \in (0 - 1)..6 :
                  /\ ~(a < 0 /\ b = Len(IntStr(0 - a)) + 1)       \* (the position of the sign)
                  /\ vec = Vec("get_digit", I(a), I(b), FilterRef("get_digit", I(a), I(b)))
            \/ \E b \in 1..4 : vec = Vec("get_digit", S(<<"a", "b", "c">>), I(b), S(<<"a", "b", "c">>))      \* what is no number is handed back
            \/ \E a \in 1..Len(Nums), p \in 1..Len(PlArgs) : vec = Vec("pluralize", Nums[a], PlArgs[p], FilterRef("pluralize", Nums[a], PlArgs[p]))
            \/ \E x \in {1000, 1500, 500, 2000, 0, 0 - 1000, 1001}, p \in 1..Len(PlArgs) : vec = Vec("pluralize", Fix(x), PlArgs[p], FilterRef("pluralize", Fix(x), PlArgs[p]))
            \/ \E a \in 1..Len(Nums), p \in 1..Len(YnArgs) : vec = Vec("yesno", Nums[a], YnArgs[p], FilterRef("yesno", Nums[a], YnArgs[p])))
       [] Family = "float" -> (
            \/ \E n \in FixVals, a \in 1..Len(FfArgs) :
                 /\ ~UnsettledTie(n, AbsI(IF FfArgs[a].k = "nil" THEN 1 ELSE ArgInt(FfArgs[a])))
                 /\ vec = Vec("floatformat", Fix(n), FfArgs[a], FilterRef("floatformat", Fix(n), FfArgs[a]))
            \/ \E q \in 1..Len(Nums), a \in 1..Len(FfArgs) : vec = Vec("floatformat", Nums[q], FfArgs[a], FilterRef("floatformat", Nums[q], FfArgs[a]))
            \/ \E n \in FixVals : \/ vec = Vec("integer", Fix(n), Nil, FilterRef("integer", Fix(n), Nil))
                                   \/ vec = Vec("float", Fix(n), Nil, FilterRef("float", Fix(n), Nil))
            \/ \E q \in 1..Len(Nums) : \/ vec = Vec("integer", Nums[q], Nil, FilterRef("integer", Nums[q], Nil))
                                        \/ vec = Vec("float", Nums[q], Nil, FilterRef("float", Nums[q], Nil)))
       [] Family = "words" -> (
            \E w \in StrsUpTo(WordAlpha, MaxLen) :
              LET t == S(Mk(WordAlpha, w)) IN
              \/ vec = Vec("title", t, Nil, FilterRef("title", t, Nil))
              \/ vec = Vec("phone2numeric", t, Nil, FilterRef("phone2numeric", t, Nil))
              \/ vec = Vec("linebreaks", t, Nil, FilterRef("linebreaks", t, Nil))
              \/ vec = Vec("wordcount", t, Nil, FilterRef("wordcount", t, Nil))
              \/ vec = Vec("capfirst", t, Nil, FilterRef("capfirst", t, Nil)))
       [] Family = "strnum" -> (
            \* numbers that arrive as text (a quoted filter argument, a string variable): decimal, also with leading zeros
            \E q \in 1..Len(StrNums) :
              LET a == S(StrNums[q]) IN
              \/ \E f \in {"ljust", "rjust", "center", "truncatechars"} : vec = Vec(f, S(SubSeq(Base12, 1, 9)), a, FilterRef(f, S(SubSeq(Base12, 1, 9)), a))
              \/ \E f \in {"truncatewords", "wordwrap"} : vec = Vec(f, S(Texts[6]), a, FilterRef(f, S(Texts[6]), a))
              \/ vec = Vec("integer", a, Nil, FilterRef("integer", a, Nil))
              \/ vec = Vec("length_is", S(SubSeq(Base12, 1, 10)), a, FilterRef("length_is", S(SubSeq(Base12, 1, 10)), a))
              \/ vec = Vec("divisibleby", I(40), a, FilterRef("divisibleby", I(40), a))
              \/ vec = Vec("divisibleby", a, I(5), FilterRef("divisibleby", a, I(5)))
              \/ vec = Vec("get_digit", I(1234567890), a, FilterRef("get_digit", I(1234567890), a))
              \/ (AbsI(ArgInt(a)) <= 5 /\ vec = Vec("floatformat", Fix(1234), a, FilterRef("floatformat", Fix(1234), a)))
              \/ vec = Vec("add", I(1), a, S(<<"1">> \o StrNums[q])))
       [] Family = "fmt" -> (
            \/ \E v \in FmtVals, pre \in {<<>>, <<"n", "=">>}, post \in {<<>>, <<"!">>}, flag \in {"", "-", "0"}, width \in {0, 1, 3, 5}, verb \in {"d", "s", "v"} :
                 /\ (verb = "d") = (v.k = "int") \/ verb = "v"
                 /\ (verb = "v" => v.k \in {"int", "str"})
                 /\ (flag # "" => width > 0)
                 /\ LET spec == [pre |-> pre, post |-> post, flag |-> flag, width |-> width, verb |-> verb] IN
                    vec = Vec("stringformat", v, SpecArg(spec), StringFormat(v, spec))
            \/ \E i \in {1, 2}, l \in 1..Len(Layouts), f \in {"date", "time"} : vec = Vec(f, Instant(i), LayoutArg(Layouts[l]), DateFormat(Instant(i), Layouts[l]))
            \/ \E q \in 1..Len(Nums), f \in {"date", "time"} : vec = Vec(f, Nums[q], LayoutArg(Layouts[1]), DateFormat(Nums[q], Layouts[1])))
       [] Family = "widthratio" -> (
            \E v \in (0 - 12)..12, m \in 0..12, w \in {10, 100, 7, 0 - 8}, form \in {"widthratio", "widthratio_as"} :
              LET r == WidthRatio(v, m, w) IN vec = Vec(form, I(v), P(I(m), I(w)), P(I(r.lo), I(r.hi))))
       [] Family = "escape" -> (\E w \in StrsUpTo(EscAlpha, MaxLen) :
                                  \/ vec = Vec("escape", S(Mk(EscAlpha, w)), Nil, S(Escape(Mk(EscAlpha, w))))
                                  \* the filter does what it says whatever the history of its input: also on text marked safe
                                  \/ (Len(w) <= MaxLen - 1 /\ vec = Vec("escape", Markup(<<S(Mk(EscAlpha, w))>>), Nil, S(Escape(Mk(EscAlpha, w)))))
                                  \/ (Len(w) <= MaxLen - 2 /\ vec = Vec("e", Markup(<<S(Mk(EscAlpha, w))>>), Nil, S(Escape(Mk(EscAlpha, w))))))
       [] Family = "addslashes" -> (\E w \in StrsUpTo(SlashAlpha, MaxLen) :
                                      \/ vec = Vec("addslashes", S(Mk(SlashAlpha, w)), Nil, S(AddSlashes(Mk(SlashAlpha, w))))
                                      \/ (Len(w) <= MaxLen - 2 /\ vec = Vec("addslashes", Markup(<<S(Mk(SlashAlpha, w))>>), Nil, S(AddSlashes(Mk(SlashAlpha, w))))))
       [] Family = "escapejs" -> (\E w \in StrsUpTo(JsAlpha, MaxLen) : vec = Vec("escapejs", S(Mk(JsAlpha, w)), Nil, S(EscapeJs(Mk(JsAlpha, w)))))
       [] Family = "urlencode" -> (\E w \in StrsUpTo(UrlAlpha, MaxLen) :
                                     \/ vec = Vec("urlencode", S(Mk(UrlAlpha, w)), Nil, S(UrlEncode(Mk(UrlAlpha, w))))
                                     \/ vec = Vec("iriencode", S(Mk(UrlAlpha, w)), Nil, S(IriEncode(Mk(UrlAlpha, w)))))
       [] Family = "tags" -> (\E w \in StrsUpTo(TagAlpha, MaxLen) :
                                     \/ vec = Vec("striptags", S(Mk(TagAlpha, w)), Nil, S(StripTags(Mk(TagAlpha, w))))
                                     \/ vec = Vec("removetags", S(Mk(TagAlpha, w)), S(<<"b">>), S(RemoveTags(Mk(TagAlpha, w), "b"))))
       [] Family = "tagcase" -> (\E w \in StrsUpTo(CaseAlpha, MaxLen), tg \in {"b", "B"} :
                                     vec = Vec("removetags", S(Mk(CaseAlpha, w)), S(<<tg>>), S(RemoveTags(Mk(CaseAlpha, w), tg))))
       [] Family = "spaceless" -> (\E w \in StrsUpTo(SpAlpha, MaxLen) : vec = Vec("spaceless", S(Mk(SpAlpha, w)), Nil, S(Spaceless(Mk(SpAlpha, w)))))
Next == go = FALSE /\ go' = TRUE /\ UNCHANGED vec

\* shape and round-trip properties of the reference definitions themselves
Shapes ==
  go => CASE vec.f = "slice" -> (IF vec.in.k = "str" THEN IsSubSeqContig(vec.out.s, vec.in.s) ELSE IsSubSeqContig(vec.out.l, vec.in.l))
          [] vec.f \in {"center", "ljust", "rjust"} ->
               /\ Len(vec.out.s) = Max2(Len(StrOf(vec.in)), IntOf(vec.arg))
               /\ IsSubSeqContig(StrOf(vec.in), vec.out.s)
               /\ Cardinality({i \in 1..Len(vec.out.s) : vec.out.s[i] = " "}) - Cardinality({i \in 1..Len(StrOf(vec.in)) : StrOf(vec.in)[i] = " "})
                    = Max2(IntOf(vec.arg) - Len(StrOf(vec.in)), 0)
               /\ (vec.f = "ljust" => SubSeq(vec.out.s, 1, Len(StrOf(vec.in))) = StrOf(vec.in))
               /\ (vec.f = "rjust" => SubSeq(vec.out.s, Len(vec.out.s) - Len(StrOf(vec.in)) + 1, Len(vec.out.s)) = StrOf(vec.in))
          [] vec.f = "truncatechars" -> (IntOf(vec.arg) > 0 => (Len(vec.out.s) <= Max2(IntOf(vec.arg), Min2(Len(vec.in.s), IntOf(vec.arg))) /\ (Len(vec.in.s) <= IntOf(vec.arg) => vec.out.s = vec.in.s)))
          [] vec.f = "floatformat" ->      \* exactly |n| places after the point (none, and no point, for 0); a whole number only when trimmed
               (vec.out.k = "str" =>
                  LET d == AbsI(IF vec.arg.k = "nil" THEN 1 ELSE ArgInt(vec.arg)) dots == {i \in 1..Len(vec.out.s) : vec.out.s[i] = "."} IN
                  IF d = 0 THEN dots = {} ELSE dots = {Len(vec.out.s) - d})
               /\ (vec.out.k = "int" => ThousandthsOf(vec.in) = 1000 * vec.out.n /\ (vec.arg.k # "int" \/ IntOf(vec.arg) <= 0))
          [] vec.f = "stringformat" -> Len(vec.out.s) >= Len(StrOf(vec.in))
          [] vec.f = "escape" /\ vec.in.k = "str" -> EscapeDecodes(vec.in.s) /\ EscapeNoDangerous(vec.in.s)
          [] vec.f = "addslashes" /\ vec.in.k = "str" -> AddSlashesOnlyNamed(vec.in.s)
          [] vec.f = "escapejs" -> JsOnlySafe(vec.in.s)
          [] vec.f = "striptags" -> NoCompleteTag(vec.in.s)
          [] OTHER -> TRUE
EmitVec == go => PrintT(ToJson([m |-> "PongoFilters", fam |-> Family] @@ vec))
=============================================================================
