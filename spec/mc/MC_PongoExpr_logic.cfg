INIT Init
NEXT Next
CONSTANTS
  Family = "logic"
INVARIANTS PrinterUnambiguous ShortCircuit EmitVec
