INIT Init
NEXT Next
CONSTANTS
  Family = "escape"
  MaxLen = 4
INVARIANTS Shapes EmitVec
