---------------------------- MODULE MC_RenderC19 ----------------------------
(* C19: v|f1:a1|f2:a2 is f2(f1(v,a1),a2), arguments evaluated in the current scope, at every expression position and in  *)
(* the filter tag. Family "pos": chains (length 0..MaxChain) of filters the specification defines, at every position.      *)
(* Family "sym": every registered filter (names from the live registry), alone and in pairs, symbolically (the harness      *)
(* concretises ap(f, in, arg) with the public ApplyFilter - the equivalence the property states).                        *)
EXTENDS PongoRender, Json

CONSTANTS Family, MaxChain, RegFilters

T(s) == [t |-> "text", s |-> s]
Lit(v) == [t |-> "lit", v |-> v]
Var(p) == [t |-> "var", path |-> p]
Out(e) == [t |-> "out", e |-> e]
NoArg == [t |-> "none"]
FC(f, a) == [f |-> f, arg |-> a]
Filt(e, chain) == IF chain = <<>> THEN e ELSE [t |-> "filt", e |-> e, chain |-> chain]
Bin(op, a, b) == [t |-> "bin", op |-> op, a |-> a, b |-> b]

Ctx == [v |-> S(<<"a", "b">>), p |-> S(<<"y">>), l |-> L(<<I(10), I(11), I(12), I(13), I(14), I(15)>>),
        mp |-> M(<<P(S(<<"k">>), S(<<"w">>))>>), sv |-> S(<<"a", " ", "b">>), n2 |-> I(2), m1 |-> I(0 - 1)]

FSeq == << FC("upper", NoArg), FC("lower", NoArg), FC("capfirst", NoArg), FC("add", Lit(S(<<"x">>))), FC("add", Var(<<"p">>)),
           FC("add", Var(<<"mp", "k">>)), FC("cut", Lit(S(<<"a">>))), FC("default", Lit(S(<<"d">>))), FC("first", NoArg),
           FC("last", NoArg), FC("length", NoArg) >>

FNum == << FC("add", Lit(I(2))), FC("add", Var(<<"n2">>)), FC("default", Lit(I(9))), FC("length", NoArg) >>
Positions == <<"out", "if", "for", "with", "set", "macroarg", "macrodef", "arr", "sub", "inclpair", "cycle", "firstof",
               "ifequal", "filtertag", "scope_with", "scope_for", "operand", "ifchanged", "scope_loop", "filtertag_scope", "macro_twice", "filtertag_empty", "filtertag_quiet">>

Files == [inc |-> <<T(<<"i:">>), Out(Var(<<"q">>))>>]

At(pos, E, chain) ==
  CASE pos = "out" -> <<Out(E)>>
    [] pos = "if" -> <<[t |-> "if", conds |-> <<E>>, bodies |-> << <<T(<<"T">>), Out(E)>>, <<T(<<"F">>)>> >>]>>
    [] pos = "for" -> <<[t |-> "for", key |-> "c", val |-> "", e |-> E, rev |-> FALSE, sorted |-> FALSE,
                         body |-> <<Out(Var(<<"c">>)), T(<<",">>)>>, empty |-> <<T(<<"none">>)>>]>>
    [] pos = "with" -> <<[t |-> "with", pairs |-> <<[name |-> "q", e |-> E]>>, body |-> <<Out(Var(<<"q">>))>>]>>
    [] pos = "set" -> <<[t |-> "set", name |-> "q", e |-> E], Out(Var(<<"q">>))>>
    [] pos = "macroarg" -> <<[t |-> "macro", name |-> "mm", params |-> <<[name |-> "a", def |-> NoArg]>>, export |-> FALSE,
                              body |-> <<T(<<"<">>), Out(Var(<<"a">>)), T(<<">">>)>>], Out([t |-> "call", name |-> "mm", args |-> <<E>>])>>
    [] pos = "macrodef" -> <<[t |-> "macro", name |-> "mm", params |-> <<[name |-> "a", def |-> E]>>, export |-> FALSE,
                              body |-> <<T(<<"<">>), Out(Var(<<"a">>)), T(<<">">>)>>], Out([t |-> "call", name |-> "mm", args |-> <<>>])>>
    [] pos = "arr" -> <<Out(Filt([t |-> "arr", items |-> <<E, Lit(I(1))>>], <<FC("first", NoArg)>>))>>
    [] pos = "sub" -> <<Out([t |-> "sub", e |-> Var(<<"l">>), i |-> Filt(E, <<FC("length", NoArg)>>)])>>
    [] pos = "inclpair" -> <<[t |-> "include", name |-> "inc", pairs |-> <<[name |-> "q", e |-> E]>>, only |-> FALSE]>>
    [] pos = "cycle" -> <<[t |-> "cycle", args |-> <<E, Lit(S(<<"z">>))>>, as |-> "", silent |-> FALSE]>>
    [] pos = "firstof" -> <<[t |-> "firstof", args |-> <<E, Lit(S(<<"z">>))>>]>>
    [] pos = "ifequal" -> <<[t |-> "ifequal", neg |-> FALSE, a |-> E, b |-> Lit(S(<<"A", "B">>)), body |-> <<T(<<"=">>)>>, els |-> <<T(<<"#">>)>>]>>
    [] pos = "ifchanged" -> <<[t |-> "ifchanged", args |-> <<E>>, body |-> <<T(<<"c">>)>>, els |-> <<T(<<"s">>)>>],
                              [t |-> "ifchanged", args |-> <<E>>, body |-> <<T(<<"c">>)>>, els |-> <<T(<<"s">>)>>]>>
    [] pos = "filtertag" -> <<[t |-> "filter", chain |-> IF chain = <<>> THEN <<FC("safe", NoArg)>> ELSE chain, body |-> <<T(<<"a", "b">>)>>]>>
    \* a body with nothing in it, and a body that renders nothing: the chain is applied to the empty text all the same
    [] pos = "filtertag_empty" -> <<T(<<"[">>), [t |-> "filter", chain |-> IF chain = <<>> THEN <<FC("safe", NoArg)>> ELSE chain, body |-> <<>>], T(<<"]">>)>>
    [] pos = "filtertag_quiet" -> <<T(<<"[">>), [t |-> "filter", chain |-> IF chain = <<>> THEN <<FC("safe", NoArg)>> ELSE chain,
                                                 body |-> <<[t |-> "if", conds |-> <<Var(<<"nope">>)>>, bodies |-> << <<T(<<"x">>)>> >>]>>], T(<<"]">>)>>
    [] pos = "scope_with" -> <<[t |-> "with", pairs |-> <<[name |-> "p", e |-> Lit(S(<<"q">>))]>>, body |-> <<Out(E)>>], Out(E)>>
    [] pos = "scope_for" -> <<[t |-> "for", key |-> "p", val |-> "", e |-> Var(<<"l">>), rev |-> FALSE, sorted |-> FALSE,
                               body |-> <<[t |-> "if", conds |-> <<Var(<<"forloop", "First">>)>>, bodies |-> << <<Out(E)>> >>]>>, empty |-> <<>>]>>
    [] pos = "scope_loop" -> <<[t |-> "for", key |-> "p", val |-> "", e |-> Var(<<"l">>), rev |-> FALSE, sorted |-> FALSE,
                                body |-> <<Out(E), T(<<";">>)>>, empty |-> <<>>]>>
    [] pos = "filtertag_scope" -> <<[t |-> "with", pairs |-> <<[name |-> "p", e |-> Lit(S(<<"q">>))]>>,
                                     body |-> <<[t |-> "filter", chain |-> IF chain = <<>> THEN <<FC("safe", NoArg)>> ELSE chain, body |-> <<T(<<"a", "b">>)>>]>>]>>
    [] pos = "macro_twice" -> <<[t |-> "macro", name |-> "mm", params |-> <<[name |-> "p", def |-> NoArg]>>, export |-> FALSE,
                                 body |-> <<T(<<"<">>), Out(E), T(<<">">>)>>],
                                Out([t |-> "call", name |-> "mm", args |-> <<Lit(S(<<"1">>))>>]), Out([t |-> "call", name |-> "mm", args |-> <<Lit(S(<<"2">>))>>])>>
    [] pos = "operand" -> <<Out(Bin("+", Lit(S(<<"L">>)), E)), Out(Bin("+", E, Lit(S(<<"R">>))))>>

\* symbolic family: argument shapes
SymArgs == <<NoArg, Lit(I(2)), Lit(S(<<"x">>))>>

VARIABLES prog, go
Init ==
  /\ go = FALSE
  /\ CASE Family = "pos" ->
            \E pos \in 1..Len(Positions), n \in 0..MaxChain :
              \E ch \in [1..n -> 1..Len(FSeq)] :
                 LET chain == [i \in 1..n |-> FSeq[ch[i]]] IN
                 prog = At(Positions[pos], Filt(Var(<<"v">>), chain), chain)
       [] Family = "arrparam" ->
            \* a parameter that is a list literal whose items are names: evaluated where and when the filter is applied
            \E pos \in 1..Len(Positions), tl \in 1..3, shape \in 1..2 :
               LET arr == [t |-> "arr", items |-> IF shape = 1 THEN <<Var(<<"p">>), Lit(I(1))>> ELSE <<Lit(S(<<"z">>)), Filt(Var(<<"p">>), <<FC("upper", NoArg)>>)>>] IN
               LET chain == <<FC("default", arr), <<FC("first", NoArg), FC("last", NoArg), FC("join", Lit(S(<<",">>)))>>[tl]>> IN
               prog = At(Positions[pos], Filt(Var(<<"nope">>), chain), <<FC("cut", Lit(S(<<"a">>))), FC("cut", Lit(S(<<"b">>)))>> \o chain)
       [] Family = "neg" ->
            \* a sign in front of a number literal (or a name) that carries filters: the filters belong to the operand
            \E pos \in 1..Len(Positions), n \in 1..2, a \in 1..2 :
              \E ch \in [1..n -> 1..Len(FNum)] :
                 LET chain == [i \in 1..n |-> FNum[ch[i]]] IN
                 LET operand == IF a = 1 THEN Lit(I(5)) ELSE Var(<<"n2">>) IN
                 /\ Positions[pos] # "operand"          \* (the grammar admits a sign only at the start of an expression)
                 /\ prog = At(Positions[pos], [t |-> "neg", a |-> Filt(operand, chain)], chain)
       [] Family = "nestparam" ->
            \* the parameter of a later filter of a chain contains a chain of its own (in a subscript); with and without an earlier
            \* filtered expression in the same template: every chain is the one that was written
            \E pos \in 1..Len(Positions), f1 \in 1..Len(FSeq), nest \in 1..2, hist \in BOOLEAN :
               LET inner == IF nest = 1 THEN Filt(Var(<<"p">>), <<FC("cut", Lit(S(<<"y">>))), FC("default", Lit(S(<<"k">>)))>>)
                                        ELSE Filt(Lit(S(<<"k">>)), <<FC("lower", NoArg)>>) IN
               LET chain == <<FSeq[f1], FC("add", [t |-> "sub", e |-> Var(<<"mp">>), i |-> inner])>> IN
               prog = (IF hist THEN <<Out(Filt(Var(<<"p">>), <<FC("upper", NoArg)>>)), T(<<"/">>)>> ELSE <<>>)
                      \o At(Positions[pos], Filt(Var(<<"v">>), chain), chain)
       [] Family = "rec" ->
            \* the filter tag inside a macro that calls itself from the tag's body: every activation filters its own body
            \E f \in {"upper", "lower", "capfirst", "length"}, depth \in 0..3, twice \in BOOLEAN :
               LET call(e) == [t |-> "call", name |-> "tree", args |-> <<e>>] IN
               LET inner == <<T(<<"n">>), Out(Var(<<"n">>)),
                              [t |-> "if", conds |-> <<Bin("<", Lit(I(0)), Var(<<"n">>))>>,
                               bodies |-> << <<T(<<"(", "x">>), Out(call(Bin("+", Var(<<"n">>), Var(<<"m1">>)))), T(<<")">>)>> >>]>> IN
               LET body == <<[t |-> "filter", chain |-> <<FC(f, NoArg)>>, body |-> inner]>> IN
               prog = <<[t |-> "macro", name |-> "tree", params |-> <<[name |-> "n", def |-> NoArg]>>, export |-> FALSE, body |-> body],
                        Out(call(Lit(I(depth))))>> \o (IF twice THEN <<T(<<"|">>), Out(call(Lit(I(1))))>> ELSE <<>>)
       [] Family = "sym1" ->
            \E f \in RegFilters, a \in 1..Len(SymArgs), src \in {"sv", "n2", "l"} :
               prog = <<Out(Filt(Var(<<src>>), <<FC(f, SymArgs[a])>>))>>
       [] Family = "sym2tag" ->
            \* a parameterised filter followed by a parameterless one (and the reverse), in the filter tag and in an expression:
            \* the parameterless one must not see anybody else's parameter
            \E f1 \in {"add", "cut", "default", "join"}, f2 \in RegFilters, a \in {2, 3} :
               \/ prog = <<[t |-> "filter", chain |-> <<FC(f1, SymArgs[a]), FC(f2, NoArg)>>, body |-> <<T(<<"3", ".", "1", "4", " ", "b">>)>>]>>
               \/ prog = <<[t |-> "filter", chain |-> <<FC(f2, NoArg), FC(f1, SymArgs[a]), FC(f2, NoArg)>>, body |-> <<T(<<"a", " ", "b">>)>>]>>
               \/ prog = <<Out(Filt(Var(<<"sv">>), <<FC(f1, SymArgs[a]), FC(f2, NoArg)>>))>>
       [] Family = "sym2" ->
            \E f1 \in RegFilters, f2 \in RegFilters, a \in 1..Len(SymArgs) :
               \* (a filter that hands back the very value it was given keeps that value's safe mark; which filters do so for which
               \*  input is not known for a symbolic filter, so chains that continue after an HTML-aware truncation are left out)
               \/ (f1 \notin SafeOutFilters /\ prog = <<Out(Filt(Var(<<"sv">>), <<FC(f1, SymArgs[a]), FC(f2, NoArg)>>))>>)
               \/ prog = <<[t |-> "filter", chain |-> <<FC(f1, NoArg), FC(f2, SymArgs[a])>>, body |-> <<T(<<"a", " ", "b">>), Out(Var(<<"n2">>))>>]>>
Next == go = FALSE /\ go' = TRUE /\ UNCHANGED prog

Res == IF Family \in {"pos", "arrparam", "neg", "rec", "nestparam"} THEN RenderF(prog, Ctx, Files) ELSE RenderSym(prog, Ctx, Files)
Balanced == go => ScopesBalanced(Res)
\* on the model: the filter events of one chain appear in written order
EmitVec == go => PrintT(ToJson([m |-> "C19", prog |-> prog, ctx |-> Ctx, files |-> Files, tags |-> <<Family>>,
                                out |-> Res.out, err |-> Res.err, evs |-> Res.evs]))
=============================================================================
