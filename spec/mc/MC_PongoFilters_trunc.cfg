INIT Init
NEXT Next
CONSTANTS
  Family = "trunc"
  MaxLen = 0
INVARIANTS Shapes EmitVec
