INIT Init
NEXT Next
CONSTANTS
  Depth = 2
  Shapes = {0, 2, 4, 7}
INVARIANTS DesignOK BlocksOK EmitVec
