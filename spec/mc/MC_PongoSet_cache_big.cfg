\* 2 threads x 2 ops, 2 sets, 2 names; VIEW hides hist, so only state invariants that do not read hist
SPECIFICATION SpecCache
CONSTANTS
  t1 = t1
  t2 = t2
  t3 = t3
  s1 = s1
  s2 = s2
  Threads <- T2
  Sets <- S2
  Names <- N2
  MaxVer = 1
  MaxOps = 2
  MaxEnv = 1
  Vocab <- V0
VIEW viewNoHist
INVARIANTS TypeOK MutexDiscipline CompileOnce CacheSound
PROPERTIES DebugBypasses SetsIndependent CleanOnlyUnderLock
