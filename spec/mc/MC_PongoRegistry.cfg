SPECIFICATION Spec
CONSTANTS
  MaxOps = 3
INVARIANTS EmitHist
PROPERTIES RefusalChangesNothing KindsIndependent
