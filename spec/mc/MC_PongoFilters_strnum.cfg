INIT Init
NEXT Next
CONSTANTS
  Family = "strnum"
  MaxLen = 0
INVARIANTS Shapes EmitVec
