INIT Init
NEXT Next
CONSTANTS
  Family = "widthratio"
  MaxLen = 0
INVARIANTS Shapes EmitVec
