INIT Init
NEXT Next
CONSTANTS
  Depth = 1
  Family = "stale"
INVARIANTS EmitVec
