INIT Init
NEXT Next
CONSTANTS
  Family = "fmt"
  MaxLen = 0
INVARIANTS Shapes EmitVec
