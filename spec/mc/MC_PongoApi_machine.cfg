INIT ApiSpecInit
NEXT ApiSpecNext
CONSTANTS
  RegTags = {}
  RegFilters = {}
  CtxNames = {}
  Budget = 0
  CrossFamily = "none"
INVARIANTS OutcomeTotal
PROPERTIES ExecOnlyAfterCompile
