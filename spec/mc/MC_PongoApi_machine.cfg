INIT ApiSpecInit
NEXT ApiSpecNext
CONSTANTS
  RegTags = {}
  RegFilters = {}
  CtxNames = {}
  Budget = 0
INVARIANTS OutcomeTotal
PROPERTIES ExecOnlyAfterCompile
