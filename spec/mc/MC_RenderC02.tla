---------------------------- MODULE MC_RenderC02 ----------------------------
(* C02: every data-flow route  source -> transport* -> sink  of a context string (marked with a unique marker made of       *)
(* < > & ' ") through an opt-out-free template. TLC checks NoRawMarker on the model for every route and predicts the exact  *)
(* output; the harness requires that the raw marker never appears in the real output.                                       *)
EXTENDS PongoRender, Json

CONSTANTS Family, RegFilters

T(s) == [t |-> "text", s |-> s]
Lit(v) == [t |-> "lit", v |-> v]
Var(p) == [t |-> "var", path |-> p]
Out(e) == [t |-> "out", e |-> e]
NoArg == [t |-> "none"]
FC(f, a) == [f |-> f, arg |-> a]
Filt(e, chain) == [t |-> "filt", e |-> e, chain |-> chain]
Bin(op, a, b) == [t |-> "bin", op |-> op, a |-> a, b |-> b]
Set(x, e) == [t |-> "set", name |-> x, e |-> e]
Arr(items) == [t |-> "arr", items |-> items]
Call(f, args) == [t |-> "call", name |-> f, args |-> args]
For(k, e, body) == [t |-> "for", key |-> k, val |-> "", e |-> e, rev |-> FALSE, sorted |-> FALSE, body |-> body, empty |-> <<>>]
Macro(nm, params, body) == [t |-> "macro", name |-> nm, params |-> params, body |-> body, export |-> FALSE]

Ctx == [x |-> S(<<"M1">>),
        m |-> M(<<P(S(<<"k">>), S(<<"M2">>))>>),
        l |-> L(<<S(<<"M3">>), S(<<"a">>)>>),
        st |-> V("struct", 0, <<>>, <<P(S(<<"F">>), S(<<"M4">>))>>),
        sg |-> V("stringer", 0, <<"M1", "b">>, <<>>),
        \* (n = 1) a Stringer that answers differently from call to call: the text that is checked must be the text that is written
        fs |-> V("stringer", 1, <<"M1", "b">>, <<>>),
        mk |-> M(<<P(S(<<"M2">>), I(1))>>),
        \* a string reached through a pointer (Go: *string, the usual optional field): it reads as the string it points to; the
        \* harness first prints a nil pointer of the same type once per process (what a value of a type was like the first time
        \* must not decide how later values of that type are written)
        ps |-> S(<<"M1">>)]

Sources == << Var(<<"x">>), Var(<<"m", "k">>), Var(<<"l", "0">>), Var(<<"st", "F">>), Var(<<"sg">>), Var(<<"fs">>), Var(<<"ps">>) >>

Files == [inc |-> <<T(<<"i:">>), Out(Var(<<"q">>))>>]

TransportKinds == <<"none", "set", "with", "forlit", "forchars", "macroarg", "macrodef", "macroouter", "concat", "arrfirst", "arrjoin",
                    "ifchanged", "filtertag", "if", "defaultfilter", "withold", "autoescape_on", "forctx", "concat_safe_left", "concat_safe_right", "set_concat_safe">>
Name(base, lv) == base \o <<"1", "2", "3">>[lv]

\* Tr(kind, level, E, K): the program fragment that moves the tainted expression E through one transport and hands the
\* expression under which it is known afterwards to the continuation K
Tr(k, lv, E, K(_)) ==
  CASE k = "none" -> K(E)
    [] k = "set" -> <<Set(Name("t", lv), E)>> \o K(Var(<<Name("t", lv)>>))
    [] k = "with" -> <<[t |-> "with", pairs |-> <<[name |-> Name("w", lv), e |-> E]>>, body |-> K(Var(<<Name("w", lv)>>))]>>
    [] k = "withold" -> <<[t |-> "with", pairs |-> <<[name |-> Name("w", lv), e |-> E], [name |-> "other", e |-> Lit(I(1))]>>, body |-> K(Var(<<Name("w", lv)>>))]>>
    [] k = "forlit" -> <<For(Name("i", lv), Arr(<<E>>), K(Var(<<Name("i", lv)>>)))>>
    [] k = "forctx" -> <<For(Name("i", lv), Var(<<"l">>), <<[t |-> "if", conds |-> <<Var(<<"forloop", "First">>)>>, bodies |-> <<K(Bin("+", Var(<<Name("i", lv)>>), E))>>]>>)>>
    [] k = "forchars" -> <<For(Name("c", lv), E, K(Var(<<Name("c", lv)>>)))>>
    [] k = "macroarg" -> <<Macro(Name("ma", lv), <<[name |-> Name("a", lv), def |-> NoArg]>>, K(Var(<<Name("a", lv)>>))), Out(Call(Name("ma", lv), <<E>>))>>
    [] k = "macrodef" -> <<Macro(Name("md", lv), <<[name |-> Name("a", lv), def |-> E]>>, K(Var(<<Name("a", lv)>>))), Out(Call(Name("md", lv), <<>>))>>
    [] k = "macroouter" -> <<Set(Name("o", lv), E), Macro(Name("mo", lv), <<>>, K(Var(<<Name("o", lv)>>))), Out(Call(Name("mo", lv), <<>>))>>
    [] k = "concat" -> K(Bin("+", E, Lit(S(<<"z">>))))
    [] k = "concat_safe_left" -> <<Macro(Name("sm", lv), <<>>, <<T(<<"<", "b", ">">>)>>)>> \o K(Bin("+", Call(Name("sm", lv), <<>>), E))
    [] k = "concat_safe_right" -> <<Macro(Name("sm", lv), <<>>, <<T(<<"<", "b", ">">>)>>)>> \o K(Bin("+", E, Call(Name("sm", lv), <<>>)))
    [] k = "set_concat_safe" -> <<Macro(Name("sm", lv), <<>>, <<T(<<"<", "i", ">">>)>>), Set(Name("sc", lv), Bin("+", Call(Name("sm", lv), <<>>), E))>> \o K(Var(<<Name("sc", lv)>>))
    [] k = "arrfirst" -> K(Filt(Arr(<<E, Lit(I(1))>>), <<FC("first", NoArg)>>))
    [] k = "arrjoin" -> K(Filt(Arr(<<Lit(S(<<"a">>)), E>>), <<FC("join", Lit(S(<<"x">>)))>>))
    [] k = "ifchanged" -> <<[t |-> "ifchanged", args |-> <<>>, body |-> K(E), els |-> <<>>]>>
    [] k = "filtertag" -> <<[t |-> "filter", chain |-> <<FC("lower", NoArg)>>, body |-> K(E)]>>
    [] k = "if" -> <<[t |-> "if", conds |-> <<E>>, bodies |-> <<K(E)>>]>>
    \* (a filter parameter is a name, a path or a literal: anything else goes through a name first)
    [] k = "defaultfilter" -> IF E.t \in {"var", "lit"} THEN K(Filt(Var(<<"nope">>), <<FC("default", E)>>))
                              ELSE <<Set(Name("d", lv), E)>> \o K(Filt(Var(<<"nope">>), <<FC("default", Var(<<Name("d", lv)>>))>>))
    [] k = "autoescape_on" -> <<[t |-> "autoescape", on |-> TRUE, body |-> K(E)]>>

SinkKinds == <<"out", "firstof", "cycle", "include_with", "include_plain", "out_twice", "cycle_as", "cycle_ref", "cycle_ref_silent">>
Sink(k, E) ==
  CASE k = "out" -> <<Out(E)>>
    [] k = "out_twice" -> <<Out(E), T(<<"-">>), Out(Bin("+", Lit(S(<<"y">>)), E))>>
    \* (the false first argument is a literal: after a name, an argument that starts with [ or ( would read as its subscript / call)
    [] k = "firstof" -> <<[t |-> "firstof", args |-> <<Lit(S(<<>>)), E>>]>>
    [] k = "cycle" -> <<[t |-> "cycle", args |-> <<E, Lit(S(<<"z">>))>>, as |-> "", silent |-> FALSE]>>
    [] k = "cycle_as" -> <<[t |-> "cycle", args |-> <<E, Lit(S(<<"z">>))>>, as |-> "cy", silent |-> TRUE], Out(Var(<<"cy">>))>>
    \* the value of a cycle named by a later cycle tag: that tag prints the next value of the first
    [] k = "cycle_ref" -> <<[t |-> "cycle", args |-> <<Lit(S(<<"y">>)), E, E>>, as |-> "cy", silent |-> FALSE], T(<<"|">>),
                            [t |-> "cycle", args |-> <<Var(<<"cy">>)>>, as |-> "", silent |-> FALSE], T(<<"|">>),
                            [t |-> "cycle", args |-> <<Var(<<"cy">>), Lit(S(<<"n">>))>>, as |-> "", silent |-> FALSE], T(<<"|">>), Out(Var(<<"cy">>))>>
    [] k = "cycle_ref_silent" -> <<[t |-> "cycle", args |-> <<Lit(S(<<"y">>)), E>>, as |-> "cy", silent |-> TRUE],
                                   [t |-> "cycle", args |-> <<Var(<<"cy">>)>>, as |-> "", silent |-> FALSE], Out(Var(<<"cy">>))>>
    [] k = "include_with" -> <<[t |-> "include", name |-> "inc", pairs |-> <<[name |-> "q", e |-> E]>>, only |-> TRUE]>>
    [] k = "include_plain" -> <<Set("q", E), [t |-> "include", name |-> "inc", pairs |-> <<>>, only |-> FALSE]>>

SymArgs == <<NoArg, Lit(I(2)), Lit(S(<<"x">>))>>

VARIABLES prog, go
Init ==
  /\ go = FALSE
  /\ CASE Family = "routes" ->
            \E s \in 1..Len(Sources), t1 \in 1..Len(TransportKinds), t2 \in 1..Len(TransportKinds), k \in 1..Len(SinkKinds) :
              prog = Tr(TransportKinds[t1], 1, Sources[s], LAMBDA e1 : Tr(TransportKinds[t2], 2, e1, LAMBDA e2 : Sink(SinkKinds[k], e2)))
       [] Family = "routes3" ->
            \* (thorough tier) three transports deep: a binding transport, any transport, a binding transport
            \E s \in 1..Len(Sources), t1 \in {2, 3, 4, 6, 7, 9, 13, 15}, t2 \in 1..Len(TransportKinds), t3 \in {2, 3, 4, 6, 7, 9, 13, 15}, k \in 1..Len(SinkKinds) :
              prog = Tr(TransportKinds[t1], 1, Sources[s], LAMBDA e1 : Tr(TransportKinds[t2], 2, e1, LAMBDA e2 :
                        Tr(TransportKinds[t3], 3, e2, LAMBDA e3 : Sink(SinkKinds[k], e3))))
       [] Family = "mapkey" ->
            \E t2 \in 1..Len(TransportKinds), k \in 1..Len(SinkKinds) :
              prog = << [t |-> "for", key |-> "kk", val |-> "vv", e |-> Var(<<"mk">>), rev |-> FALSE, sorted |-> TRUE,
                         body |-> Tr(TransportKinds[t2], 2, Var(<<"kk">>), LAMBDA e2 : Sink(SinkKinds[k], e2)), empty |-> <<>>] >>
       [] Family = "ftparam" ->
            \* the parameter of a filter in the `filter` tag
            \E s \in 1..Len(Sources), t1 \in {1, 2, 3, 6}, shape \in 1..6 :
              prog = Tr(TransportKinds[t1], 1, Sources[s], LAMBDA e1 :
                        CASE shape = 1 -> <<[t |-> "filter", chain |-> <<FC("default", e1)>>, body |-> <<>>]>>
                          [] shape = 2 -> <<[t |-> "filter", chain |-> <<FC("add", e1)>>, body |-> <<T(<<"x">>)>>]>>
                          [] shape = 3 -> <<[t |-> "filter", chain |-> <<FC("lower", NoArg), FC("default", e1)>>, body |-> <<>>]>>
                          [] shape = 4 -> <<[t |-> "filter", chain |-> <<FC("lower", e1), FC("cut", e1)>>, body |-> <<T(<<"x">>), Out(e1)>>]>>
                          \* the text sits inside a list that is the parameter
                          [] shape = 5 -> <<[t |-> "filter", chain |-> <<FC("default", Var(<<"l">>)), FC("join", Lit(S(<<",">>)))>>, body |-> <<>>]>>
                          [] shape = 6 -> <<Set("lst", [t |-> "arr", items |-> <<e1, Lit(I(1))>>]),
                                            [t |-> "filter", chain |-> <<FC("default", Var(<<"lst">>)), FC("first", NoArg)>>, body |-> <<>>]>>)
       [] Family = "chainparam" ->
            \* text that enters through the *parameter* of a later filter of a chain, whatever stands earlier in the chain
            \* (escape, e, lower ...): no filter of a chain is an opt-out for what another one brings in
            \E s \in 1..Len(Sources), t1 \in {1, 2, 3, 6}, f1 \in {"escape", "e", "lower", "capfirst", "cut"}, f2 \in {"add", "default", "join"}, k \in {1, 2, 3, 6} :
              prog = Tr(TransportKinds[t1], 1, Sources[s], LAMBDA e1 :
                        LET first == IF f1 = "cut" THEN FC("cut", Lit(S(<<"t">>))) ELSE FC(f1, NoArg) IN
                        LET base == IF f2 = "add" THEN Lit(S(<<"t">>)) ELSE IF f2 = "default" THEN Lit(S(<<>>)) ELSE [t |-> "arr", items |-> <<Lit(S(<<"a">>)), Lit(S(<<"b">>))>>] IN
                        LET chain == IF f2 = "join" THEN <<FC("join", e1), first>> ELSE <<first, FC(f2, e1)>> IN
                        Sink(SinkKinds[k], Filt(base, chain)))
       [] Family = "filters" ->
            \E f \in RegFilters, a \in 1..Len(SymArgs), s \in 1..Len(Sources), k \in {1, 2, 3}, t1 \in {1, 2, 6} :
              prog = Tr(TransportKinds[t1], 1, Sources[s], LAMBDA e1 : Sink(SinkKinds[k], Filt(e1, <<FC(f, SymArgs[a])>>)))
Next == go = FALSE /\ go' = TRUE /\ UNCHANGED prog

Res == IF Family = "filters" THEN RenderSym(prog, Ctx, Files) ELSE RenderF(prog, Ctx, Files)
\* the design claim: no opt-out-free route writes a context marker unescaped
NoRaw == go => NoRawMarker(Res)
EmitVec == go => PrintT(ToJson([m |-> "C02", prog |-> prog, ctx |-> Ctx, files |-> Files, tags |-> <<Family>>,
                                out |-> Res.out, err |-> Res.err]))
=============================================================================
