INIT Init
NEXT Next
CONSTANTS
  Family = "rec"
  MaxChain = 2
  RegFilters = {}
INVARIANTS Balanced EmitVec
