\* C04: histories of up to 3 executions on one compiled template (1 chunk; the harness supplies real programs)
SPECIFICATION Spec
CONSTANTS
  t1 = t1
  t2 = t2
  t3 = t3
  Threads <- T1
  NChunks = 1
  InclAt = 0
  Contexts <- C3
  MaxWFail = 0
  MaxRuns = 3
INVARIANTS Isolation AllOrNothing PrefixOnly EmitHist
PROPERTIES CompiledImmutable
