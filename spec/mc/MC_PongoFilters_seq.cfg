INIT Init
NEXT Next
CONSTANTS
  Family = "seq"
  MaxLen = 0
INVARIANTS Shapes EmitVec
