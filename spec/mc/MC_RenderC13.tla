---------------------------- MODULE MC_RenderC13 ----------------------------
(* C13 macros: every signature (0..MaxParams parameters, every subset with defaults) x every argument count            *)
(* (0..n+1) x {local, imported, imported under an alias}; argument kinds; markup results; unbounded recursion graphs.   *)
EXTENDS PongoRender, Json

CONSTANTS Family, MaxParams

T(s) == [t |-> "text", s |-> s]
Lit(v) == [t |-> "lit", v |-> v]
Var(p) == [t |-> "var", path |-> p]
Out(e) == [t |-> "out", e |-> e]
NoDef == [t |-> "none"]
Call(f, args) == [t |-> "call", name |-> f, args |-> args]
Bin(op, a, b) == [t |-> "bin", op |-> op, a |-> a, b |-> b]

PNames == <<"p1", "p2", "p3", "p4">>
ArgLits == <<Lit(I(1)), Var(<<"nope">>), Var(<<"mk">>), Lit(B(TRUE)), Lit(S(<<"b">>))>>   \* the i-th argument (the second one evaluates to nil: supplied, not omitted)
DefLits == <<Lit(S(<<"d","1">>)), Var(<<"outer">>), Lit(I(20)), Bin("+", Var(<<"outer">>), Lit(S(<<"x">>)))>>

\* (p2 and p4 are also keys of the caller's context: a parameter hides them inside the macro, supplied or not)
Ctx == [mk |-> S(<<"M1">>), outer |-> S(<<"o">>), l2 |-> L(<<I(1), I(2)>>), p2 |-> S(<<"c", "2">>), p4 |-> I(44)]

RECURSIVE Flatten2(_)
Flatten2(ss) == IF ss = <<>> THEN <<>> ELSE Head(ss) \o Flatten2(Tail(ss))

\* macro named nm with n parameters; defs[i] says whether parameter i has a default; the body prints every parameter
MacroDef(nm, n, defs, exported) ==
  [t |-> "macro", name |-> nm, export |-> exported,
   params |-> [i \in 1..n |-> [name |-> PNames[i], def |-> IF defs[i] THEN DefLits[i] ELSE NoDef]],
   body |-> <<T(<<"<">>)>> \o Flatten2([i \in 1..n |-> <<Out(Var(<<PNames[i]>>)), T(<<"|">>)>>]) \o <<T(<<">">>)>>]
\* after the call, the parameter names must be unbound again
ProbeParams(n) == <<T(<<"(">>)>> \o [i \in 1..n |-> Out(Var(<<PNames[i]>>))] \o <<T(<<")">>)>>
CallNode(nm, k) == Out(Call(nm, [i \in 1..k |-> ArgLits[i]]))

Modes == {"local", "import", "alias"}
SigProg(n, defs, k, mode) ==
  CASE mode = "local" -> <<MacroDef("m", n, defs, FALSE), CallNode("m", k)>> \o ProbeParams(n)
    [] mode = "import" -> <<[t |-> "import", file |-> "lib", name |-> "m", as |-> "m"], CallNode("m", k)>> \o ProbeParams(n)
    [] mode = "alias" -> <<[t |-> "import", file |-> "lib", name |-> "m", as |-> "z"], CallNode("z", k)>> \o ProbeParams(n)
SigFiles(n, defs) == [lib |-> <<MacroDef("m", n, defs, TRUE), T(<<"ignored">>)>>]

\* recursion: NM macros; macro i calls macro next[i] unconditionally (no base case), printing first
RecName(i) == <<"r1", "r2", "r3">>[i]
RecDef(i, nxt, exported) == [t |-> "macro", name |-> RecName(i), export |-> exported, params |-> <<[name |-> "n", def |-> NoDef]>>,
                             body |-> <<T(<<".">>), Out(Call(RecName(nxt), <<Bin("+", Var(<<"n">>), Lit(I(1)))>>))>>]
\* where the unconditional call sits: in the body, in the default of a second parameter (the caller never supplies it), as the
\* argument of a call, in a set/with binding, in a loop
\* "include": the body includes another template and that one calls the next macro (which it sees like every name of the includer)
Placements == {"body", "default", "arg", "set", "loop", "default_only", "include"}
IncName(i) == <<"inc1", "inc2", "inc3">>[i]
RecDefAt(i, nxt, exported, place) ==
  LET call == Call(RecName(nxt), <<Bin("+", Var(<<"n">>), Lit(I(1)))>>) IN
  CASE place = "body" -> RecDef(i, nxt, exported)
    [] place = "default" -> [t |-> "macro", name |-> RecName(i), export |-> exported,
                             params |-> <<[name |-> "n", def |-> NoDef], [name |-> "x", def |-> call]>>, body |-> <<T(<<".">>), Out(Var(<<"x">>))>>]
    [] place = "default_only" -> [t |-> "macro", name |-> RecName(i), export |-> exported,      \* nothing in the body at all
                             params |-> <<[name |-> "n", def |-> Lit(I(0))], [name |-> "x", def |-> Call(RecName(nxt), <<>>)]>>, body |-> <<T(<<".">>)>>]
    [] place = "arg" -> [t |-> "macro", name |-> RecName(i), export |-> exported, params |-> <<[name |-> "n", def |-> NoDef]>>,
                         body |-> <<T(<<".">>), Out(Call(RecName(nxt), <<call>>))>>]
    [] place = "set" -> [t |-> "macro", name |-> RecName(i), export |-> exported, params |-> <<[name |-> "n", def |-> NoDef]>>,
                         body |-> <<[t |-> "set", name |-> "r", e |-> call], T(<<".">>)>>]
    [] place = "include" -> [t |-> "macro", name |-> RecName(i), export |-> exported, params |-> <<[name |-> "n", def |-> NoDef]>>,
                             body |-> <<T(<<".">>), [t |-> "include", name |-> IncName(i), pairs |-> <<>>, only |-> FALSE]>>]
    [] place = "loop" -> [t |-> "macro", name |-> RecName(i), export |-> exported, params |-> <<[name |-> "n", def |-> NoDef]>>,
                          body |-> <<[t |-> "for", key |-> "i", val |-> "", e |-> Var(<<"l2">>), rev |-> FALSE, sorted |-> FALSE, body |-> <<T(<<".">>), Out(call)>>, empty |-> <<>>]>>]
RecProgAt(nm, nxt, mode, place) ==
  IF mode = "local" THEN [i \in 1..nm |-> RecDefAt(i, nxt[i], FALSE, place[i])] \o <<Out(Call("r1", <<Lit(I(0))>>))>>
  ELSE [i \in 1..nm |-> [t |-> "import", file |-> "lib", name |-> RecName(i), as |-> RecName(i)]] \o <<Out(Call("r1", <<Lit(I(0))>>))>>
RecFilesAt(nm, nxt, place) ==
  LET inc(i) == <<Out(Call(RecName(nxt[i]), <<Bin("+", Var(<<"n">>), Lit(I(1)))>>))>> IN
  [lib |-> [i \in 1..nm |-> RecDefAt(i, nxt[i], TRUE, place[i])], inc1 |-> inc(1), inc2 |-> IF nm >= 2 THEN inc(2) ELSE <<>>]
\* modes "alias" / "both": the macros are imported under other names (z1..) - alone, or next to an import under their own names.
\* The body of a macro runs in the scope it was imported into: under "alias" the names r1.. its body calls are bound to nothing there
\* (the call prints nothing and the rendering ends after the first "."), under "both" they are bound and the recursion is runaway.
AliasName(i) == <<"z1", "z2", "z3">>[i]
RecProg(nm, nxt, mode) ==
  CASE mode = "local" -> [i \in 1..nm |-> RecDef(i, nxt[i], FALSE)] \o <<Out(Call("r1", <<Lit(I(0))>>))>>
    [] mode = "import" -> [i \in 1..nm |-> [t |-> "import", file |-> "lib", name |-> RecName(i), as |-> RecName(i)]] \o <<Out(Call("r1", <<Lit(I(0))>>))>>
    [] mode = "alias" -> [i \in 1..nm |-> [t |-> "import", file |-> "lib", name |-> RecName(i), as |-> AliasName(i)]] \o <<Out(Call("z1", <<Lit(I(0))>>))>>
    [] mode = "both" -> [i \in 1..nm |-> [t |-> "import", file |-> "lib", name |-> RecName(i), as |-> AliasName(i)]]
                        \o [i \in 1..nm |-> [t |-> "import", file |-> "lib", name |-> RecName(i), as |-> RecName(i)]] \o <<Out(Call("z1", <<Lit(I(0))>>))>>
RecFiles(nm, nxt) == [lib |-> [i \in 1..nm |-> RecDef(i, nxt[i], TRUE)]]

\* kinds: a macro result is markup (not escaped again), also through set/with; arguments are escaped where they are printed
KindProgs == <<
  <<MacroDef("m", 1, <<FALSE>>, FALSE), Out(Call("m", <<Var(<<"mk">>)>>))>>,
  <<MacroDef("m", 1, <<FALSE>>, FALSE), [t |-> "set", name |-> "r", e |-> Call("m", <<Var(<<"mk">>)>>)], Out(Var(<<"r">>)), Out(Var(<<"r">>))>>,
  <<MacroDef("m", 1, <<FALSE>>, FALSE), [t |-> "with", pairs |-> <<[name |-> "r", e |-> Call("m", <<Var(<<"mk">>)>>)]>>, body |-> <<Out(Var(<<"r">>))>>]>>,
  <<MacroDef("m", 2, <<FALSE, TRUE>>, FALSE), [t |-> "for", key |-> "i", val |-> "", e |-> Var(<<"l2">>), rev |-> FALSE, sorted |-> FALSE,
                                                body |-> <<Out(Call("m", <<Var(<<"i">>)>>))>>, empty |-> <<>>]>>,
  <<MacroDef("m", 1, <<TRUE>>, FALSE), [t |-> "if", conds |-> <<Call("m", <<>>)>>, bodies |-> << <<T(<<"yes">>)>>, <<T(<<"no">>)>> >>]>>,
  <<MacroDef("m", 0, <<>>, FALSE), Out(Call("m", <<>>)), Out(Call("m", <<>>)), Out(Call("nosuch", <<Lit(I(1))>>))>>,
  <<MacroDef("m", 1, <<FALSE>>, FALSE), [t |-> "autoescape", on |-> FALSE, body |-> <<Out(Call("m", <<Var(<<"mk">>)>>))>>]>>,
  \* the result is markup whatever autoescape mode its body ran under: kept from an `autoescape off` region and printed after it,
  \* and called under `autoescape on` from a definition made under `off`
  <<MacroDef("m", 1, <<FALSE>>, FALSE), [t |-> "autoescape", on |-> FALSE, body |-> <<[t |-> "set", name |-> "r", e |-> Call("m", <<Var(<<"mk">>)>>)]>>], T(<<"[">>), Out(Var(<<"r">>)), T(<<"]">>)>>,
  \* (which mode the body of a macro runs under when call site and definition site sit in different scopes with different modes is not
  \*  settled by the statement - the engine takes the mode of the defining scope - and is not generated)
  <<[t |-> "autoescape", on |-> FALSE, body |-> <<MacroDef("m", 1, <<FALSE>>, FALSE)>>],
    [t |-> "for", key |-> "i", val |-> "", e |-> Var(<<"l2">>), rev |-> FALSE, sorted |-> FALSE, body |-> <<Out(Call("m", <<Var(<<"mk">>)>>))>>, empty |-> <<>>]>>,
  <<[t |-> "set", name |-> "outer", e |-> Lit(S(<<"s">>))], MacroDef("m", 2, <<FALSE, TRUE>>, FALSE), Out(Call("m", <<Lit(I(1))>>)),
    [t |-> "set", name |-> "outer", e |-> Lit(S(<<"t">>))], Out(Call("m", <<Lit(I(1))>>))>>
>>

VARIABLES prog, files, go
Init ==
  /\ go = FALSE
  /\ CASE Family = "sig" ->
            \E n \in 0..MaxParams, mode \in Modes :
              \E defs \in [1..n -> BOOLEAN], k \in 0..(n + 1) :
                 prog = SigProg(n, defs, k, mode) /\ files = SigFiles(n, defs)
       [] Family = "rec" ->
            \E nm \in 1..3, mode \in {"local", "import", "alias", "both"} :
              \E nxt \in [1..nm -> 1..nm] :
                 prog = RecProg(nm, nxt, mode) /\ files = RecFiles(nm, nxt)
       [] Family = "recplace" ->
            \E nm \in 1..2, mode \in {"local", "import"} :
              \E nxt \in [1..nm -> 1..nm], place \in [1..nm -> Placements] :
                 prog = RecProgAt(nm, nxt, mode, place) /\ files = RecFilesAt(nm, nxt, place)
       [] Family = "kinds" ->
            \E i \in 1..Len(KindProgs) : prog = KindProgs[i] /\ files = <<>>
Next == go = FALSE /\ go' = TRUE /\ UNCHANGED <<prog, files>>

Res == RenderF(prog, Ctx, files)
Balanced == go => (ScopesBalanced(Res) /\ DepthBalanced(Res))
\* unbounded recursion always ends in an error, never in output
AliasOnly == prog[1].t = "import" /\ \A i \in 1..Len(prog) : prog[i].t = "import" => prog[i].as # prog[i].name
RecursionBounded == (go /\ Family \in {"rec", "recplace"}) => IF AliasOnly THEN Res.err = "" ELSE Res.err # ""
\* an imported macro behaves like the local one: same output (checked on the model for the signature family)
ImportEqualsLocal ==
  (go /\ Family = "sig" /\ prog[1].t = "import" /\ prog[1].as = "m") =>
     LET def == files.lib[1] IN
     Render(<<[def EXCEPT !.export = FALSE]>> \o Tail(prog), Ctx).out = Res.out
EmitVec == go => PrintT(ToJson([m |-> "C13", prog |-> prog, ctx |-> Ctx, files |-> files, tags |-> <<Family>>,
                                out |-> Res.out, err |-> Res.err, evs |-> Res.evs]))
=============================================================================
