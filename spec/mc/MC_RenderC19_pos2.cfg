INIT Init
NEXT Next
CONSTANTS
  Family = "pos"
  MaxChain = 2
  RegFilters = {}
INVARIANTS Balanced EmitVec
