SPECIFICATION MCSpec
CONSTANTS
  MaxLen = 3
  Alpha = "text"
INVARIANTS CursorExact PositionExact HtmlExact Coverage NoDelimIdentity TokensOrdered VerbatimLiteral TrimFlags NoStuck Emit
PROPERTIES Progress
