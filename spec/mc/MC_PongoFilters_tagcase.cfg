INIT Init
NEXT Next
CONSTANTS
  Family = "tagcase"
  MaxLen = 6
INVARIANTS Shapes EmitVec
