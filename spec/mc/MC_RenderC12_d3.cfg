INIT Init
NEXT Next
CONSTANTS
  Family = "d3"
INVARIANTS Balanced EmitVec
