INIT Init
NEXT Next
CONSTANTS
  Family = "tags"
  MaxLen = 5
INVARIANTS Shapes EmitVec
