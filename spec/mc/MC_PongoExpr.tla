----------------------------- MODULE MC_PongoExpr -----------------------------
EXTENDS PongoExpr, Json
CONSTANTS Family

Num == <<IntL(0), IntL(1), IntL(2), IntL(3), IntL(7), FloatL(5, 2), FloatL(1, 2)>>
NumR == <<IntL(2), IntL(3), FloatL(1, 2)>>                       \* reduced alphabet for the deep families
PowBase == <<IntL(0), IntL(1), IntL(4), IntL(9), IntL(16), FloatL(9, 4), FloatL(1, 4), IntL(2), FloatL(4, 1), Neg(IntL(4))>>
PowExp == <<FloatL(1, 2), FloatL(3, 2), Neg(FloatL(1, 2)), IntL(0), FloatL(0, 1), IntL(2), FloatL(2, 1), IntL(1), Bin("/", IntL(1), FloatL(2, 1)), Bin("-", FloatL(3, 2), IntL(1))>>
Str == <<StrL("a"), StrL("b"), StrL("")>>
Bool == <<BoolL(TRUE), BoolL(FALSE)>>
Lists == << ListV("l3", <<Val("int", 3, 1, ""), Val("int", 1, 1, ""), Val("int", 2, 1, "")>>),
            ListV("ls", <<Val("str", 0, 1, "a"), Val("str", 0, 1, "b")>>) >>
AOps == <<"+", "-", "*", "/", "%", "^">>
COps == <<"==", "!=", "<", ">", "<=", ">=">>
LOps == <<"and", "or">>

\* N1(L, op, i, j, u): a numeric tree of depth <= 1 over leaf table L; u selects leaf / negated leaf / binary
N1(L, op, i, j, u) == CASE u = 0 -> L[i] [] u = 1 -> Neg(L[i]) [] OTHER -> Bin(AOps[op], L[i], L[j])
N1Canon(op, j, u) == (u < 2 => (op = 1 /\ j = 1))

\* conditions for the logic family, incl. one that fails unless short-circuited away
Conds == << BoolL(TRUE), BoolL(FALSE), Bin("<", IntL(1), IntL(2)), Bin("==", IntL(2), IntL(3)), Bin("==", Bin("/", IntL(1), IntL(0)), IntL(1)),
            Bin(">=", FloatL(5, 2), IntL(2)), Not(BoolL(FALSE)), Bin("!=", StrL("a"), StrL("b")),
            \* operands that decide without being booleans, and one that fails whatever it is compared with
            IntL(0), IntL(2), StrL(""), StrL("a"), Bin("-", IntL(1), IntL(1)), FloatL(1, 2), Bin("%", IntL(1), IntL(0)) >>

VARIABLES tree, go
Init ==
  /\ go = FALSE
  /\ CASE Family = "n2" -> (       \* op2(X, Y) with X, Y of depth <= 1 over the full numeric alphabet
            \E o2 \in 1..Len(AOps), o1 \in 1..Len(AOps), i1 \in 1..Len(Num), j1 \in 1..Len(Num), u1 \in 0..2,
               o3 \in 1..Len(AOps), i3 \in 1..Len(Num), j3 \in 1..Len(Num), u3 \in 0..2, side \in {0, 1} :
              /\ N1Canon(o1, j1, u1) /\ N1Canon(o3, j3, u3)
              /\ (side = 1 => u3 = 2)            \* side 1: the full product of two binaries; side 0: one operand is a (negated) leaf
              /\ (side = 0 => u3 < 2)
              /\ tree = Bin(AOps[o2], N1(Num, o1, i1, j1, u1), N1(Num, o3, i3, j3, u3)))
       [] Family = "n2swap" -> (
            \E o2 \in 1..Len(AOps), o1 \in 1..Len(AOps), i1 \in 1..Len(Num), j1 \in 1..Len(Num), i3 \in 1..Len(Num), u3 \in 0..1 :
              tree = Bin(AOps[o2], N1(Num, 1, i3, 1, u3), Bin(AOps[o1], Num[i1], Num[j1])))
       [] Family = "n2left" -> (
            \E o2 \in 1..Len(AOps), o1 \in 1..Len(AOps), i1 \in 1..Len(Num), j1 \in 1..Len(Num), i3 \in 1..Len(Num), u3 \in 0..1 :
              tree = Bin(AOps[o2], Bin(AOps[o1], Num[i1], Num[j1]), N1(Num, 1, i3, 1, u3)))
       [] Family = "cmp" -> (      \* comparison of two numeric trees of depth <= 1
            \E c \in 1..Len(COps), o1 \in 1..Len(AOps), i1 \in 1..Len(Num), j1 \in 1..Len(Num), u1 \in 0..2, i3 \in 1..Len(Num), u3 \in 0..1, sw \in BOOLEAN :
              /\ N1Canon(o1, j1, u1)
              /\ tree = IF sw THEN Bin(COps[c], N1(Num, 1, i3, 1, u3), N1(Num, o1, i1, j1, u1))
                              ELSE Bin(COps[c], N1(Num, o1, i1, j1, u1), N1(Num, 1, i3, 1, u3)))
       [] Family = "logic" -> (    \* and/or/not over conditions, both nestings
            \E a \in 1..Len(Conds), b \in 1..Len(Conds), c \in 1..Len(Conds), o1 \in 1..2, o2 \in 1..2, sh \in 0..3 :
              tree = CASE sh = 0 -> Bin(LOps[o1], Conds[a], Bin(LOps[o2], Conds[b], Conds[c]))
                       [] sh = 1 -> Bin(LOps[o1], Bin(LOps[o2], Conds[a], Conds[b]), Conds[c])
                       [] sh = 2 -> Not(Bin(LOps[o1], Conds[a], Conds[b]))
                       [] sh = 3 -> Bin(LOps[o1], Not(Conds[a]), Conds[b]))
       [] Family = "str" -> (      \* concatenation, string equality, membership
            \E a \in 1..Len(Str), b \in 1..Len(Str), n \in 1..5, l \in 1..2, sh \in 0..7 :
              tree = CASE sh = 0 -> Bin("+", Str[a], Str[b])
                       [] sh = 1 -> Bin("+", Str[a], Num[n])
                       [] sh = 2 -> Bin("+", Num[n], Str[b])
                       [] sh = 3 -> Bin("==", Bin("+", Str[a], Str[b]), Str[b])
                       [] sh = 4 -> Bin("in", Num[n], Lists[1])
                       [] sh = 5 -> Bin("in", Str[a], Lists[l])
                       [] sh = 6 -> Bin("+", Bin("+", Num[n], Num[n]), Str[a])
                       [] sh = 7 -> Bin("+", Str[a], Bin("*", Num[n], Num[n])))
       [] Family = "pow" -> (      \* powers with fractional, zero, negative and float exponents, alone and in a chain
            \E a \in 1..Len(PowBase), e \in 1..Len(PowExp), sh \in 0..6 :
              tree = CASE sh = 0 -> Bin("^", PowBase[a], PowExp[e])
                       [] sh = 1 -> Bin("==", Bin("^", PowBase[a], PowExp[e]), FloatL(2, 1))
                       [] sh = 2 -> Bin("*", IntL(2), Bin("^", PowBase[a], PowExp[e]))
                       [] sh = 3 -> Bin("^", PowBase[a], Bin("-", PowExp[e], IntL(0)))
                       \* a sign / not in front of a power applies to the power (also when the base is a literal)
                       [] sh = 4 -> Neg(Bin("^", PowBase[a], PowExp[e]))
                       [] sh = 5 -> Bin("<", Neg(Bin("^", PowBase[a], PowExp[e])), IntL(0))
                       [] sh = 6 -> Bin("-", Neg(Bin("^", PowBase[a], PowExp[e])), Bin("^", PowBase[a], PowExp[e])))
       [] Family = "n3" -> (       \* depth 3 over the reduced alphabet: op3(op2(X, Y), Z) and op3(Z, op2(X, Y)), X, Y depth <= 1, Z leaf or negated leaf
            \E o3 \in 1..Len(AOps), o2 \in 1..Len(AOps), o1 \in 1..Len(AOps), i1 \in 1..3, j1 \in 1..3, u1 \in 0..2,
               o4 \in 1..Len(AOps), i4 \in 1..3, j4 \in 1..3, u4 \in 0..2, z \in 1..3, uz \in 0..1, sw \in BOOLEAN :
              /\ N1Canon(o1, j1, u1) /\ N1Canon(o4, j4, u4)
              /\ LET mid == Bin(AOps[o2], N1(NumR, o1, i1, j1, u1), N1(NumR, o4, i4, j4, u4)) IN
                 tree = IF sw THEN Bin(AOps[o3], N1(NumR, 1, z, 1, uz), mid) ELSE Bin(AOps[o3], mid, N1(NumR, 1, z, 1, uz)))
Next == go = FALSE /\ go' = TRUE /\ UNCHANGED tree

\* the printer is minimal and unambiguous: parsing the printed tokens by precedence climbing gives the tree back
PrinterUnambiguous == go => Reparse(tree)
\* the right operand's failure is unobservable when the left operand decides
ShortCircuit ==
  (go /\ tree.t = "bin" /\ tree.op \in {"and", "or"}) =>
     LET a == Eval(tree.a) IN
     (~Bad(a) /\ ((tree.op = "and" /\ ~Truthy(a)) \/ (tree.op = "or" /\ Truthy(a)))) => Eval(tree).k = "bool"
EmitVec == go => LET v == Eval(tree) IN
                 PrintT(ToJson([m |-> "PongoExpr", fam |-> Family, toks |-> Tokens(tree), val |-> Canon(v), truthy |-> Truthy(v)]))
=============================================================================
