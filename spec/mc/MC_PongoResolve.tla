---------------------------- MODULE MC_PongoResolve ----------------------------
EXTENDS PongoResolve, Json

Inner == Struct(<<P(S(<<"F">>), S(<<"i", "f">>)), P(S(<<"G">>), I(9))>>)
TheStruct == Struct(<<P(S(<<"F">>), S(<<"f", "v">>)), P(S(<<"G">>), L(<<I(7), I(8)>>)), P(S(<<"N">>), Nil), P(S(<<"h">>), S(<<"h", "i", "d">>)),
                      P(S(<<"P">>), Ptr(Inner)), P(S(<<"Fn">>), Func("M0"))>>)
Roots == [ rmap |-> M(<<P(S(<<"k">>), S(<<"m", "v">>)), P(S(<<"n">>), I(5)), P(S(<<"l">>), L(<<I(1), I(2)>>)), P(S(<<"st">>), TheStruct),
                        P(S(<<"z">>), Nil), P(S(<<"np">>), NilPtr)>>),
           rmapa |-> M(<<P(S(<<"k">>), S(<<"a", "v">>)), P(S(<<"n">>), I(3)), P(S(<<"l">>), L(<<I(4)>>))>>),     \* a map whose key type is an interface (string keys in it)
           rmapi |-> MapI(<<P(I(1), S(<<"o", "n", "e">>)), P(I(2), S(<<"t", "w", "o">>))>>),
           rlist |-> L(<<I(10), I(11), L(<<I(30)>>)>>),
           rarr |-> Arr(<<I(20), I(21)>>),
           rstruct |-> TheStruct,
           rptr |-> Ptr(TheStruct),
           rnilptr |-> NilPtr,
           rint |-> I(5),
           rstr |-> S(<<"a", "b">>),
           rbool |-> B(TRUE),
           fsum |-> Func("sum"), fcat |-> Func("cat"), fanyv |-> Func("anyv"), fctx |-> Func("ctx"), fctxv |-> Func("ctxv"), fptr |-> Func("ptrarg"), fnilv |-> Func("nilv"), fstrer |-> Func("strer"), fstrerv |-> Func("strerv"),
           remb |-> V("struct", 1, <<>>, <<P(S(<<"F">>), S(<<"e", "v">>))>>),       \* embeds a nil pointer: the fields that would promote (Q) do not exist
           fnil |-> Func("nilres"), fm1 |-> Func("M1"), fme |-> Func("ME") ]
RootNames == <<"rmap", "rmapa", "rmapi", "rlist", "rarr", "rstruct", "rptr", "rnilptr", "rint", "rstr", "rbool", "rnope",
               "fsum", "fcat", "fanyv", "fctx", "fctxv", "fnil", "fm1", "fme", "fptr", "fnilv", "remb", "fstrer", "fstrerv">>

NoCall(st) == st @@ [call |-> FALSE, args |-> <<>>]
WithCall(st, a) == st @@ [call |-> TRUE, args |-> a]
NameS(s) == [t |-> "name", s |-> s]
IdxS(n) == [t |-> "idx", n |-> n]
SubS(e) == [t |-> "sub", e |-> e]
PlainSteps == << NameS("F"), NameS("G"), NameS("N"), NameS("h"), NameS("nope"), NameS("k"), NameS("n"), NameS("l"), NameS("st"), NameS("z"), NameS("np"),
                 NameS("P"), NameS("Fn"), NameS("Q"), NameS("M0"), NameS("MV"), NameS("ME"), NameS("PM0"),
                 IdxS(0), IdxS(1), IdxS(2), IdxS(5),
                 SubS(I(0)), SubS(I(1)), SubS(I(9)), SubS(I(0 - 1)), SubS(S(<<"k">>)), SubS(S(<<"F">>)), SubS(S(<<"h">>)), SubS(S(<<"z", "z">>)), SubS(Nil), SubS(Roots.rlist), SubS(Roots.rmap) >>
ArgLists == << <<>>, <<I(1)>>, <<I(1), I(2)>>, <<S(<<"a">>), S(<<"b">>)>>, <<S(<<"a">>)>>, <<Nil>>, <<I(1), S(<<"x">>)>>,
              <<I(1), I(2), I(3)>>, <<I(1), I(2), I(3), I(4)>>, <<I(5), I(4), I(3), I(2), I(1)>>, <<I(1), I(2), I(3), I(4), I(5), I(6), I(7)>>, <<I(1), I(2), S(<<"x">>)>>, <<NilPtr>>, <<Ptr(TheStruct)>>, <<Nil, Nil>> >>
CallSteps == << NameS("M0"), NameS("M1"), NameS("MV"), NameS("PM0"), NameS("Fn"), NameS("F"), NameS("nope") >>

\* subscripts that are names themselves (the harness writes them out: rmap[fm1("a")]): failing ones, empty ones, usable ones
SubPaths == << [root |-> "fm1", rootCall |-> TRUE, rootArgs |-> <<S(<<"a">>)>>, steps |-> <<>>],          \* wrong argument type: error
               [root |-> "fme", rootCall |-> TRUE, rootArgs |-> <<>>, steps |-> <<>>],                     \* (T, error) with an error
               [root |-> "fsum", rootCall |-> TRUE, rootArgs |-> <<I(1), S(<<"x">>)>>, steps |-> <<>>],     \* variadic, wrong type
               [root |-> "rint", rootCall |-> FALSE, rootArgs |-> <<>>, steps |-> <<NoCall(IdxS(0))>>],     \* index on a scalar
               [root |-> "rint", rootCall |-> FALSE, rootArgs |-> <<>>, steps |-> <<NoCall(NameS("k"))>>],  \* field on a scalar
               [root |-> "rstr", rootCall |-> TRUE, rootArgs |-> <<>>, steps |-> <<>>],                    \* not a function
               [root |-> "fm1", rootCall |-> TRUE, rootArgs |-> <<I(0)>>, steps |-> <<>>],                  \* 1
               [root |-> "rmap", rootCall |-> FALSE, rootArgs |-> <<>>, steps |-> <<NoCall(NameS("k"))>>],  \* "mv"
               [root |-> "rnope", rootCall |-> FALSE, rootArgs |-> <<>>, steps |-> <<>>],                  \* the empty value
               [root |-> "fcat", rootCall |-> TRUE, rootArgs |-> <<S(<<"k">>), S(<<>>)>>, steps |-> <<>>] >> \* "k"
SubP(i) == [t |-> "subp", pname |-> SubPaths[i].root,
            p |-> [val |-> IF SubPaths[i].root \in DOMAIN Roots THEN Roots[SubPaths[i].root] ELSE Nil,
                   rootArgs |-> SubPaths[i].rootArgs, rootCall |-> SubPaths[i].rootCall, steps |-> SubPaths[i].steps]]

CONSTANT Deep      \* (thorough tier) also plain paths of length 3
VARIABLES root, rootCall, rootArgs, steps, go
Init ==
  /\ go = FALSE
  /\ \E r \in 1..Len(RootNames) :
       /\ root = RootNames[r]
       /\ \/ \* plain paths of length 0..2
             /\ rootCall = FALSE /\ rootArgs = <<>>
             /\ \/ steps = <<>>
                \/ \E a \in 1..Len(PlainSteps) : steps = <<NoCall(PlainSteps[a])>>
                \/ \E a \in 1..Len(PlainSteps), b \in 1..Len(PlainSteps) :
                     /\ PlainSteps[a].t # "sub"          \* the grammar admits a subscript only as the last step of a name
                     /\ steps = <<NoCall(PlainSteps[a]), NoCall(PlainSteps[b])>>
                \/ /\ Deep
                   /\ \E a \in 1..Len(PlainSteps), b \in 1..Len(PlainSteps), c \in 1..Len(PlainSteps) :
                        /\ PlainSteps[a].t # "sub" /\ PlainSteps[b].t # "sub"
                        /\ steps = <<NoCall(PlainSteps[a]), NoCall(PlainSteps[b]), NoCall(PlainSteps[c])>>
          \/ \* a subscript that is a name itself, directly on the root or after one step
             /\ rootCall = FALSE /\ rootArgs = <<>>
             /\ \E q \in 1..Len(SubPaths) :
                  \/ steps = <<NoCall(SubP(q))>>
                  \/ \E a \in {6, 8, 9, 10, 12} : steps = <<NoCall(PlainSteps[a]), NoCall(SubP(q))>>       \* after .k .l .st .z .P
          \/ \* a call on the root: f(args)
             /\ rootCall = TRUE /\ steps = <<>>
             /\ \E a \in 1..Len(ArgLists) :
                  /\ rootArgs = ArgLists[a]
                  \* (what a pointer prints as is not part of the model: pointer arguments go to the functions that look at their type only)
                  /\ ((\E i \in 1..Len(ArgLists[a]) : ArgLists[a][i].k = "ptr") => RootNames[r] \notin {"fanyv"})
          \/ \* a call on a step: root.M1(args), root.st.M1(args)
             /\ rootCall = FALSE /\ rootArgs = <<>>
             /\ \E c \in 1..Len(CallSteps), a \in 1..Len(ArgLists) :
                  \/ steps = <<WithCall(CallSteps[c], ArgLists[a])>>
                  \/ steps = <<NoCall(NameS("st")), WithCall(CallSteps[c], ArgLists[a])>>
                  \/ steps = <<NoCall(NameS("P")), WithCall(CallSteps[c], ArgLists[a])>>
Next == go = FALSE /\ go' = TRUE /\ UNCHANGED <<root, rootCall, rootArgs, steps>>

RootVal == IF root \in DOMAIN Roots THEN Roots[root] ELSE Nil
Res == Resolve(RootVal, rootArgs, rootCall, steps)
Total == go => NeverStuck(RootVal, steps)
\* positions inside a string are not settled by the statement (the engine yields the byte value): such paths are flagged
RECURSIVE OnString(_, _, _)
OnString(v, sts, i) ==
  IF i > Len(sts) THEN FALSE
  ELSE LET w == IF v.k = "ptr" /\ v.l # <<>> THEN v.l[1] ELSE v IN
       IF sts[i].t \in {"idx", "sub", "subp"} /\ w.k = "str" THEN TRUE
       ELSE LET r == Resolve(v, <<>>, FALSE, <<sts[i]>>) IN IF r.res # "val" THEN FALSE ELSE OnString(r.v, sts, i + 1)
EmitVec == go => PrintT(ToJson([m |-> "PongoResolve", root |-> root, onstring |-> (LET r0 == Resolve(RootVal, rootArgs, rootCall, <<>>) IN r0.res = "val" /\ OnString(r0.v, steps, 1)), rootCall |-> rootCall, rootArgs |-> rootArgs, steps |-> steps,
                                res |-> Res.res, v |-> Res.v]))
=============================================================================
