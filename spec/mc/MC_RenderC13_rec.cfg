INIT Init
NEXT Next
CONSTANTS
  Family = "rec"
  MaxParams = 4
INVARIANTS Balanced RecursionBounded ImportEqualsLocal EmitVec
