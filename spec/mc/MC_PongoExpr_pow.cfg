INIT Init
NEXT Next
CONSTANTS
  Family = "pow"
INVARIANTS PrinterUnambiguous ShortCircuit EmitVec
