INIT Init
NEXT Next
CONSTANTS
  Family = "routes"
  RegFilters = {}
INVARIANTS NoRaw EmitVec
