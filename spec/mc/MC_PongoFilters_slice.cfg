INIT Init
NEXT Next
CONSTANTS
  Family = "slice"
  MaxLen = 0
INVARIANTS Shapes EmitVec
