---------------------------- MODULE MC_PongoLexer ----------------------------
(* Bounded instantiation of PongoLexer: every string of symbols up to a length, each symbol   *)
(* expanding to a byte string (single lexer-significant bytes plus macro symbols that make    *)
(* long keywords reachable at small lengths).                                                *)
EXTENDS PongoLexer, Json

CONSTANTS MaxLen,     \* maximal number of symbols in a source
          Alpha       \* which alphabet: "text" | "code" | "mixed"

TextSyms == <<
  <<123>>, <<125>>, <<37>>, <<35>>, <<45>>, <<34>>, <<92>>, <<97>>, <<49>>, <<32>>, <<9>>, <<10>>, <<13>>,
  <<1>>, <<195, 169>>, <<255>>,
  VerbatimOpen, VerbatimClose,
  <<123,123,32,118,32,125,125>>,          \* {{ v }}
  <<123,35,32,99,32,35,125>>,             \* {# c #}
  <<123,35,195,169,35,125>>               \* {#e-acute#}: a comment with a multi-byte character (columns count bytes there too)
>>
\* code-mode alphabet: used after a fixed "{{" or "{%" opener
CodeSyms == <<
  <<97>>, <<49>>, <<34>>, <<39>>, <<92>>, <<32>>, <<10>>, <<46>>, <<124>>, <<58>>, <<45>>, <<125>>, <<37>>,
  <<40>>, <<61>>, <<60>>, <<62>>, <<33>>, <<38>>, <<36>>, <<123>>, <<195, 169>>, <<105, 110>>
>>
\* a reduced mixed alphabet for the deeper bound
MixedSyms == <<
  <<123>>, <<125>>, <<37>>, <<35>>, <<45>>, <<34>>, <<97>>, <<32>>, <<9>>, <<10>>,
  VerbatimOpen, VerbatimClose
>>

Syms == CASE Alpha = "text" -> TextSyms [] Alpha = "code" -> CodeSyms [] OTHER -> MixedSyms
Prefix == IF Alpha = "code" THEN {<<123, 123>>, <<123, 37>>, <<120, 10, 123, 123, 45>>} ELSE {<<>>}


VARIABLE printed
mcVars == <<lexVars, printed>>

MCInit ==
  \* (nested quantifiers: TLC enumerates the function sets lazily instead of building one set of all strings)
  /\ \E p \in Prefix, n \in 0..MaxLen :
        \E w \in [1..n -> 1..Len(Syms)] :
           LexInit(p \o Flatten([i \in 1..n |-> Syms[w[i]]]))
  /\ printed = FALSE

MCNext ==
  \/ LexNext /\ UNCHANGED printed
  \/ LexDone /\ ~printed /\ printed' = TRUE /\ UNCHANGED lexVars

MCSpec == MCInit /\ [][MCNext]_mcVars
MCSpecFair == MCSpec /\ WF_mcVars(MCNext)
Termination == <>(LexDone /\ printed)

Proj(t) == [typ |-> t.typ, val |-> t.val, line |-> t.line, col |-> t.col, trim |-> t.trim, from |-> t.from]
Emit ==
  (LexDone /\ ~printed) =>
     PrintT(ToJson([m |-> "PongoLexer", src |-> src,
                    tokens |-> [i \in 1..Len(tokens) |-> Proj(tokens[i])],
                    err |-> err]))
=============================================================================
