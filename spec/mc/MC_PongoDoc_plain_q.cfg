SPECIFICATION MCSpec
CONSTANTS
  MaxFrags = 4
  Quick = TRUE
  CtlText = FALSE
  Layout = FALSE
INVARIANTS CursorExact PositionExact HtmlExact Coverage TrimFlags LexesCleanly AgreeAtEnd Emit
