INIT Init
NEXT Next
CONSTANTS
  Layouts = {0, 1, 3, 5, 10, 15}
  NestedKind = "include"
INVARIANTS FirstWins EmitVec
