INIT Init
NEXT Next
CONSTANTS
  Family = "sig"
  MaxParams = 4
INVARIANTS Balanced RecursionBounded ImportEqualsLocal EmitVec
