SPECIFICATION MCSpec
CONSTANTS
  MaxLen = 6
  Alpha = "mixed"
INVARIANTS CursorExact PositionExact HtmlExact Coverage NoDelimIdentity TokensOrdered VerbatimLiteral TrimFlags NoStuck Emit
PROPERTIES Progress
