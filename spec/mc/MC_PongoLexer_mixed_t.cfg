SPECIFICATION MCSpec
CONSTANTS
  MaxLen = 5
  Alpha = "mixed"
INVARIANTS CursorExact PositionExact HtmlExact Coverage NoDelimIdentity TokensOrdered VerbatimLiteral TrimFlags NoStuck Emit
PROPERTIES Progress
