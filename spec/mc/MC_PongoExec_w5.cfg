SPECIFICATION Spec
CONSTANTS
  t1 = t1
  t2 = t2
  t3 = t3
  Threads <- T1
  NChunks = 5
  InclAt = 0
  Contexts <- C1
  MaxWFail = 2
  MaxRuns = 1
INVARIANTS Isolation Agree SuccessIsFull AllOrNothing PrefixOnly WriterErrorReturned IncludeAtomic EmitHist
PROPERTIES CompiledImmutable
