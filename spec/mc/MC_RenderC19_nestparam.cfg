INIT Init
NEXT Next
CONSTANTS
  Family = "nestparam"
  MaxChain = 2
  RegFilters = {}
INVARIANTS Balanced EmitVec
