INIT Init
NEXT Next
CONSTANTS
  Family = "urlencode"
  MaxLen = 3
INVARIANTS Shapes EmitVec
