INIT Init
NEXT Next
CONSTANTS
  Deep = TRUE
INVARIANTS Total EmitVec
