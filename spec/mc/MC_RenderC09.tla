---------------------------- MODULE MC_RenderC09 ----------------------------
(* C09: every nesting (depth <= Depth) of if/elif/else, for (+empty, reversed, sorted, key/value), ifequal,   *)
(* ifnotequal, firstof, cycle, ifchanged over a small data universe, rendered by the PongoRender semantics.  *)
EXTENDS PongoRender, Json

CONSTANTS Depth, Family

T(s) == [t |-> "text", s |-> s]
Lit(v) == [t |-> "lit", v |-> v]
Var(p) == [t |-> "var", path |-> p]
Out(e) == [t |-> "out", e |-> e]
Bin(op, a, b) == [t |-> "bin", op |-> op, a |-> a, b |-> b]
Not(a) == [t |-> "not", a |-> a]

\* the public context (the harness builds the same Go values)
Ctx == [l0 |-> L(<<>>), l1 |-> L(<<I(7)>>), l3 |-> L(<<I(3), I(1), I(2)>>), ls |-> L(<<S(<<"b">>), S(<<"a">>), S(<<"b">>)>>),
        le |-> L(<<S(<<"a">>), S(<<>>), S(<<"a">>), S(<<"b">>), S(<<"b">>), S(<<>>), S(<<>>), S(<<"b">>)>>),   \* repeats, also across empty items
        tyi |-> L(<<I(3), I(1), I(2)>>), tys |-> L(<<S(<<"b">>), S(<<"c">>), S(<<"a">>)>>),       \* Go slices with an element type of their own ([]int, []string)
        s0 |-> S(<<>>), s2 |-> S(<<"b", "a">>), su |-> S(<<"CJK", "EACUTE", "z">>),
        m2 |-> M(<<P(S(<<"a">>), I(1)), P(S(<<"b">>), I(2))>>), m0 |-> M(<<>>),
        z0 |-> S(<<"0">>), n0 |-> I(0), n1 |-> I(1), n2 |-> I(2), bt |-> B(TRUE), bf |-> B(FALSE)]

CondSeq == <<Var(<<"l0">>), Var(<<"l3">>), Var(<<"s0">>), Var(<<"n0">>), Var(<<"n1">>), Var(<<"nope">>), Var(<<"bf">>),
          Var(<<"forloop", "First">>), Var(<<"forloop", "Last">>),
          Bin("==", Var(<<"x">>), Lit(I(1))), Not(Var(<<"x">>)), Bin("and", Var(<<"n1">>), Var(<<"l0">>)), Bin("or", Var(<<"s0">>), Var(<<"bt">>))>>
Conds == {CondSeq[i] : i \in DOMAIN CondSeq}

IterSeq == << [e |-> Var(<<"l0">>), kv |-> FALSE], [e |-> Var(<<"l1">>), kv |-> FALSE], [e |-> Var(<<"l3">>), kv |-> FALSE],
           [e |-> Var(<<"ls">>), kv |-> FALSE], [e |-> Var(<<"s2">>), kv |-> FALSE], [e |-> Var(<<"s0">>), kv |-> FALSE], [e |-> Var(<<"su">>), kv |-> FALSE],
           [e |-> Var(<<"n1">>), kv |-> FALSE], [e |-> Var(<<"nope">>), kv |-> FALSE],
           [e |-> Var(<<"m2">>), kv |-> TRUE], [e |-> Var(<<"m0">>), kv |-> TRUE], [e |-> Var(<<"le">>), kv |-> FALSE],
           [e |-> Var(<<"tyi">>), kv |-> FALSE], [e |-> Var(<<"tys">>), kv |-> FALSE] >>
Iters == {IterSeq[i] : i \in DOMAIN IterSeq}

LeafSeq == << T(<<"t">>), Out(Var(<<"x">>)), Out(Var(<<"forloop", "Counter">>)), Out(Var(<<"forloop", "Counter0">>)),
            Out(Var(<<"forloop", "Revcounter">>)), Out(Var(<<"forloop", "Revcounter0">>)),
            Out(Var(<<"forloop", "Parentloop", "Counter">>)), Out(Var(<<"forloop", "Parentloop", "Last">>)),
            Out(Var(<<"y">>)),
            [t |-> "cycle", args |-> <<Lit(S(<<"a">>)), Lit(S(<<"b">>)), Lit(S(<<"c">>))>>, as |-> "", silent |-> FALSE],
            [t |-> "ifchanged", args |-> <<Var(<<"x">>)>>, body |-> <<T(<<"C">>)>>, els |-> <<T(<<"s">>)>>],
            [t |-> "ifchanged", args |-> <<>>, body |-> <<Out(Var(<<"x">>))>>, els |-> <<>>],
            [t |-> "ifchanged", args |-> <<>>, body |-> <<[t |-> "if", conds |-> <<Bin("==", Var(<<"x">>), Lit(S(<<"a">>)))>>, bodies |-> << <<T(<<"A">>)>> >>]>>, els |-> <<>>],
            [t |-> "ifchanged", args |-> <<Var(<<"x">>), Var(<<"forloop", "First">>)>>, body |-> <<T(<<"C">>)>>, els |-> <<>>],
            [t |-> "firstof", args |-> <<Var(<<"s0">>), Var(<<"x">>), Lit(S(<<"z">>))>>],
            [t |-> "firstof", args |-> <<Var(<<"n0">>), Var(<<"z0">>), Lit(S(<<"y">>))>>],
            Out(Var(<<"forloop", "Parentloop", "Parentloop", "Counter">>)),
            [t |-> "templatetag", name |-> "openblock"],
            [t |-> "widthratio", a |-> Var(<<"forloop", "Counter">>), m |-> Lit(I(3)), w |-> Lit(I(100)), as |-> ""],
            [t |-> "spaceless", body |-> <<T(<<"<", "i", ">", " ", "<", "b", ">">>), Out(Var(<<"x">>)), T(<<"<", "/", "b", ">", " ", "NL", "<", "/", "i", ">">>)>>],
            [t |-> "comment", body |-> <<Out(Var(<<"x">>)), [t |-> "cycle", args |-> <<Lit(S(<<"a">>))>>, as |-> "", silent |-> FALSE]>>],
            [t |-> "ifequal", neg |-> FALSE, a |-> Var(<<"x">>), b |-> Lit(I(1)), body |-> <<T(<<"=">>)>>, els |-> <<T(<<"#">>)>>],
            [t |-> "ifequal", neg |-> TRUE, a |-> Var(<<"x">>), b |-> Lit(S(<<"b">>)), body |-> <<T(<<"!">>)>>, els |-> <<>>],
            \* sequences and maps are never equal to anything, themselves included; the two tags stay complementary
            [t |-> "ifequal", neg |-> FALSE, a |-> Var(<<"l3">>), b |-> Var(<<"l3">>), body |-> <<T(<<"=">>)>>, els |-> <<T(<<"#">>)>>],
            [t |-> "ifequal", neg |-> TRUE, a |-> Var(<<"l3">>), b |-> Var(<<"l3">>), body |-> <<T(<<"!">>)>>, els |-> <<T(<<"~">>)>>],
            [t |-> "ifequal", neg |-> FALSE, a |-> Var(<<"m2">>), b |-> Var(<<"m2">>), body |-> <<T(<<"=">>)>>, els |-> <<T(<<"#">>)>>],
            [t |-> "ifequal", neg |-> FALSE, a |-> Var(<<"l0">>), b |-> Var(<<"m0">>), body |-> <<T(<<"=">>)>>, els |-> <<T(<<"#">>)>>],
            [t |-> "ifequal", neg |-> FALSE, a |-> Var(<<"x">>), b |-> Var(<<"x">>), body |-> <<T(<<"=">>)>>, els |-> <<T(<<"#">>)>>],
            [t |-> "ifequal", neg |-> TRUE, a |-> Var(<<"x">>), b |-> Var(<<"x">>), body |-> <<T(<<"!">>)>>, els |-> <<T(<<"~">>)>>] >>
Leaves == {LeafSeq[i] : i \in DOMAIN LeafSeq}

ElseOpts == {<<>>, <<T(<<"E">>)>>}

\* Nodes are built from small parameter choices by nested quantifiers in Init (TLC enumerates those without
\* materialising and de-duplicating large sets of records).
ElseSeq == << <<>>, <<T(<<"E">>)>> >>
IfNode(c, el, sub) == [t |-> "if", conds |-> <<CondSeq[c]>>, bodies |-> IF ElseSeq[el] = <<>> THEN << <<sub>> >> ELSE << <<sub>>, ElseSeq[el] >>]
ForNode(it, rv, so, el, sub) == [t |-> "for", key |-> "x", val |-> IF IterSeq[it].kv THEN "y" ELSE "", e |-> IterSeq[it].e,
                                 rev |-> rv, sorted |-> so, body |-> <<sub>>, empty |-> ElseSeq[el]]
\* Wrapped(sub, n): n is sub itself, or sub wrapped in one if / for
\* one parameter tuple per node: unused parameters are pinned (Canon) so that each node is generated once
Canon(k, c, it, rv, so, el) ==
  CASE k = "same" -> c = 1 /\ it = 1 /\ ~rv /\ ~so /\ el = 1
    [] k = "if"   -> it = 1 /\ ~rv /\ ~so
    [] k = "for"  -> c = 1 /\ (IterSeq[it].kv => so)
Pick(k, c, it, rv, so, el, sub) ==
  CASE k = "same" -> sub [] k = "if" -> IfNode(c, el, sub) [] k = "for" -> ForNode(it, rv, so, el, sub)
Wrapped(sub, n) ==
  \/ n = sub
  \/ \E c \in 1..Len(CondSeq), el \in 1..2 : n = IfNode(c, el, sub)
  \/ \E it \in 1..Len(IterSeq), rv \in BOOLEAN, el \in 1..2 :
        \E so \in (IF IterSeq[it].kv THEN {TRUE} ELSE BOOLEAN) : n = ForNode(it, rv, so, el, sub)

\* elif chains and two-statement bodies at the top level only
Elifs == { [t |-> "if", conds |-> <<c1, c2>>, bodies |-> IF el = <<>> THEN << <<T(<<"1">>)>>, <<T(<<"2">>)>> >> ELSE << <<T(<<"1">>)>>, <<T(<<"2">>)>>, el >>] :
            c1 \in Conds, c2 \in Conds, el \in ElseOpts }

Elifs3 == { [t |-> "if", conds |-> <<c1, c2, c3>>,
              bodies |-> IF el = <<>> THEN << <<T(<<"1">>)>>, <<T(<<"2">>)>>, <<T(<<"3">>)>> >> ELSE << <<T(<<"1">>)>>, <<T(<<"2">>)>>, <<T(<<"3">>)>>, el >>] :
            c1 \in Conds, c2 \in Conds, c3 \in Conds, el \in ElseOpts }
Progs == CASE Family = "elif3" -> { <<n>> : n \in Elifs3 }
           [] Family = "elif" -> { <<n>> : n \in Elifs }
           [] Family = "elifloop" -> { << [t |-> "for", key |-> "x", val |-> "", e |-> Var(<<"l3">>), rev |-> FALSE, sorted |-> FALSE,
                                          body |-> <<n, T(<<",">>)>>, empty |-> <<>>] >> : n \in Elifs }

\* (family "stale") an execution that fails in the middle of a loop - after cycle / ifchanged have run a number of times -
\* followed by an execution of the same compiled template with another context: the second starts afresh
StaleLeaves == << [t |-> "cycle", args |-> <<Lit(S(<<"a">>)), Lit(S(<<"b">>)), Lit(S(<<"c">>))>>, as |-> "", silent |-> FALSE],
                  [t |-> "cycle", args |-> <<Lit(S(<<"a">>)), Lit(S(<<"b">>))>>, as |-> "cy", silent |-> TRUE],
                  [t |-> "ifchanged", args |-> <<>>, body |-> <<T(<<"k">>)>>, els |-> <<>>],
                  [t |-> "ifchanged", args |-> <<Var(<<"n1">>)>>, body |-> <<T(<<"C">>)>>, els |-> <<T(<<"s">>)>>],
                  [t |-> "ifchanged", args |-> <<Var(<<"x">>)>>, body |-> <<T(<<"C">>)>>, els |-> <<T(<<"s">>)>>] >>
\* 6 / (x + m2v) fails when x = 2 (m2v is -2)
FailAtTwo == Out(Bin("/", Lit(I(6)), Bin("+", Var(<<"x">>), Var(<<"m2v">>))))
StaleCtx1 == Ctx @@ [m2v |-> I(0 - 2), lf |-> L(<<I(3), I(2), I(3)>>)]
StaleCtx2 == Ctx @@ [m2v |-> I(0 - 2), lf |-> L(<<I(3), I(4), I(5), I(3)>>)]
StaleProg(lf, nest) ==
  LET inner == [t |-> "for", key |-> "x", val |-> "", e |-> Var(<<"lf">>), rev |-> FALSE, sorted |-> FALSE,
                body |-> <<StaleLeaves[lf], Out(Var(<<"cy">>)), FailAtTwo, T(<<";">>)>>, empty |-> <<>>] IN
  IF nest THEN << [t |-> "for", key |-> "y", val |-> "", e |-> Var(<<"l1">>), rev |-> FALSE, sorted |-> FALSE, body |-> <<inner>>, empty |-> <<>>] >> ELSE <<inner>>
\* initial states are enumerated by one thread; the rendering is done in the (parallel) second step
VARIABLES prog, go
Init ==
  /\ go = FALSE
  /\ IF Family = "nest"
       THEN \E lf \in 1..Len(LeafSeq) :
              \/ Depth = 0 /\ prog = <<LeafSeq[lf]>>
              \/ Depth = 1 /\ \E c1 \in 1..Len(CondSeq), it1 \in 1..Len(IterSeq), k1 \in {"same", "if", "for"}, rv1 \in BOOLEAN, so1 \in BOOLEAN, el1 \in 1..2 :
                     prog = << Pick(k1, c1, it1, rv1, so1, el1, LeafSeq[lf]) >> /\ Canon(k1, c1, it1, rv1, so1, el1)
              \/ Depth = 2 /\ \E c1 \in 1..Len(CondSeq), it1 \in 1..Len(IterSeq), k1 \in {"same", "if", "for"}, rv1 \in BOOLEAN, so1 \in BOOLEAN, el1 \in 1..2 :
                     \E c2 \in 1..Len(CondSeq), it2 \in 1..Len(IterSeq), k2 \in {"if", "for"}, rv2 \in BOOLEAN, so2 \in BOOLEAN, el2 \in 1..2 :
                       /\ Canon(k1, c1, it1, rv1, so1, el1) /\ Canon(k2, c2, it2, rv2, so2, el2) /\ k1 # "same"
                       /\ prog = << Pick(k2, c2, it2, rv2, so2, el2, Pick(k1, c1, it1, rv1, so1, el1, LeafSeq[lf])) >>
       ELSE IF Family \in {"forfor", "for3"}
       THEN \E lf \in 1..Len(LeafSeq), it1 \in 1..Len(IterSeq), rv1 \in BOOLEAN, it2 \in {2, 3, 4, 5, 7, 10}, rv2 \in BOOLEAN, it3 \in {3, 5, 10} :
              LET so(it) == IterSeq[it].kv IN
              LET inner == ForNode(it1, rv1, so(it1), 1, LeafSeq[lf]) IN
              LET mid == [ForNode(it2, rv2, so(it2), 1, inner) EXCEPT !.body = <<inner, T(<<";">>)>>] IN
              IF Family = "forfor" THEN it3 = 3 /\ prog = <<mid>>
              ELSE prog = << [ForNode(it3, FALSE, so(it3), 1, mid) EXCEPT !.body = <<mid, T(<<"|">>)>>] >>
       ELSE IF Family = "stale" THEN \E lf \in 1..Len(StaleLeaves), nest \in BOOLEAN : prog = StaleProg(lf, nest)
       ELSE prog \in Progs
Next == go = FALSE /\ go' = TRUE /\ UNCHANGED prog

Res == Render(prog, Ctx)
Balanced == go => (ScopesBalanced(Res) /\ DepthBalanced(Res))
EmitVec == go => IF Family = "stale"
                   THEN LET r1 == Render(prog, StaleCtx1) r2 == Render(prog, StaleCtx2) IN
                        PrintT(ToJson([m |-> "C09", prog |-> prog, ctx |-> StaleCtx1, out |-> r1.out, err |-> r1.err,
                                       ctx2 |-> StaleCtx2, out2 |-> r2.out, err2 |-> r2.err, tags |-> <<"stale">>]))
                   ELSE PrintT(ToJson([m |-> "C09", prog |-> prog, ctx |-> Ctx, out |-> Res.out, err |-> Res.err, evs |-> Res.evs]))
=============================================================================
