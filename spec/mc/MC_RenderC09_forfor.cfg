INIT Init
NEXT Next
CONSTANTS
  Depth = 1
  Family = "forfor"
INVARIANTS Balanced EmitVec
