\* behaviours for replay: used with -simulate (random schedules) and exhaustively with small constants
SPECIFICATION SpecCache
CONSTANTS
  t1 = t1
  t2 = t2
  t3 = t3
  s1 = s1
  s2 = s2
  Threads <- T2
  Sets <- S1
  Names <- N1
  MaxVer = 1
  MaxOps = 1
  MaxEnv = 1
  Vocab <- V0
INVARIANTS EmitHist
