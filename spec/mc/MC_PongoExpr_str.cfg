INIT Init
NEXT Next
CONSTANTS
  Family = "str"
INVARIANTS PrinterUnambiguous ShortCircuit EmitVec
