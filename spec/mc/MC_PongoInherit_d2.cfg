INIT Init
NEXT Next
CONSTANTS
  Depth = 2
  Shapes = {0, 1, 2, 3, 4, 5, 6, 7}
INVARIANTS DesignOK EmitVec
