INIT Init
NEXT Next
CONSTANTS
  Family = "addslashes"
  MaxLen = 5
INVARIANTS Shapes EmitVec
