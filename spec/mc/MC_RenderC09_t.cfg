INIT Init
NEXT Next
CONSTANTS
  Depth = 2
  Family = "nest"
INVARIANTS Balanced EmitVec
