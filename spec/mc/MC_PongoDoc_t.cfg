SPECIFICATION MCSpec
CONSTANTS
  MaxFrags = 4
  Quick = TRUE
  Layout = TRUE
INVARIANTS CursorExact PositionExact HtmlExact Coverage TrimFlags LexesCleanly AgreeAtEnd Emit
