SPECIFICATION MCSpec
CONSTANTS
  MaxFrags = 4
  Quick = TRUE
  CtlText = FALSE
  Layout = TRUE
INVARIANTS CursorExact PositionExact HtmlExact Coverage TrimFlags LexesCleanly AgreeAtEnd Emit
