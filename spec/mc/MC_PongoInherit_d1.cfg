INIT Init
NEXT Next
CONSTANTS
  Depth = 1
  Shapes = {0, 1, 2, 3, 4, 5, 6}
INVARIANTS DesignOK EmitVec
