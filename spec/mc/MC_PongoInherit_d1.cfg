INIT Init
NEXT Next
CONSTANTS
  Depth = 1
  Shapes = {0, 1, 2, 3, 4, 5, 6, 7, 8}
INVARIANTS DesignOK BlocksOK EmitVec
