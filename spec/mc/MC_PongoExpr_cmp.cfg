INIT Init
NEXT Next
CONSTANTS
  Family = "cmp"
INVARIANTS PrinterUnambiguous ShortCircuit EmitVec
