SPECIFICATION Spec
CONSTANTS
  t1 = t1
  t2 = t2
  t3 = t3
  Threads <- T2
  NChunks = 2
  InclAt = 2
  Contexts <- C1
  MaxWFail = 2
  MaxRuns = 1
INVARIANTS Isolation Agree SuccessIsFull AllOrNothing PrefixOnly WriterErrorReturned IncludeAtomic
PROPERTIES CompiledImmutable
