----------------------------- MODULE MC_PongoLoader -----------------------------
EXTENDS PongoLoader, Json
CONSTANTS Layouts,     \* bitmasks 0..15 used for each loader's file set
          NestedKind   \* how a-files include "c": "include_if" or "include" (then a missing c is an error of its own)

A == <<"a">>  DA == <<"d", "a">>  C == <<"c">>  DC == <<"d", "c">>
Paths == <<A, DA, C, DC>>
Bit(m, i) == (m \div (2 ^ (i - 1))) % 2 = 1
Tag(l, p) == IF l = 1 THEN "one:" ELSE "two:"
PName(p) == CASE p = A -> "a" [] p = DA -> "d/a" [] p = C -> "c" [] p = DC -> "d/c" [] OTHER -> "r"
\* a-files include "c" by a relative name: resolved in their own directory
Content(l, p) == IF p \in {A, DA} THEN (IF NestedKind = "extends" THEN <<Ref("extends", Name(FALSE, <<"c">>)), Text(Tag(l, p) \o PName(p))>>
                                        ELSE <<Text(Tag(l, p) \o PName(p) \o "("), Ref(IF NestedKind \in {"child", "loop"} THEN "include" ELSE NestedKind, Name(FALSE, <<"c">>)), Text(")")>>)
                 ELSE <<Text(Tag(l, p) \o PName(p))>>
Loader(l, mask, extra) ==
  LET ps == {Paths[i] : i \in {j \in 1..4 : Bit(mask, j)}} IN
  [p \in ps \cup DOMAIN extra |-> IF p \in DOMAIN extra THEN extra[p] ELSE Content(l, p)]

Kinds == <<"include", "include_if", "lazy", "lazy_if", "extends", "import", "ssi", "ssi_parsed">>
Names == << Name(FALSE, <<"a">>), Name(TRUE, <<"a">>), Name(FALSE, <<"d", "a">>), Name(TRUE, <<"d", "a">>), Name(FALSE, <<"..", "a">>),
            Name(FALSE, <<".", "c">>), Name(FALSE, <<"nope">>), Name(TRUE, <<"d", "..", "a">>), Name(TRUE, <<"d", "c">>) >>
RootLocs == << <<"r">>, <<"d", "r">> >>

VARIABLES loaders, root, go
\* (NestedKind = "child") a child template whose block refers to another template by a relative name: child and parent in
\* the same or in different directories; the reference is one of the child's, wherever the block is rendered
BaseLocs == << <<"base">>, <<"d", "base">> >>
ChildKinds == <<"include", "include_if", "ssi", "ssi_parsed", "import">>
ChildInit ==
  \E k \in 1..Len(ChildKinds), m1 \in Layouts, m2 \in Layouts, rl \in 1..2, bl \in 1..2, rootIn \in {1, 2}, mid \in BOOLEAN :
     LET baseFile == (BaseLocs[bl] :> <<Text("P["), Block(<<Text("pb")>>), Text("]")>>) IN
     LET ref == Ref(ChildKinds[k], Name(FALSE, <<"c">>)) IN
     LET blk == Block(<<Text("cb("), ref, Text(")")>>) IN
     \* with `mid`: root extends a middle template (in the other directory) that extends the base and has no block of its own
     LET midLoc == IF rl = 1 THEN <<"d", "mid">> ELSE <<"mid">> IN
     LET midFile == IF mid THEN (midLoc :> <<Ref("extends", Name(TRUE, BaseLocs[bl])), Text("ignored")>>) ELSE <<>> IN
     LET rootFile == (RootLocs[rl] :> <<Ref("extends", Name(TRUE, IF mid THEN midLoc ELSE BaseLocs[bl])), Text("junk"), blk>>) IN
     /\ loaders = << Loader(1, m1, (IF rootIn = 1 THEN rootFile ELSE <<>>) @@ baseFile @@ midFile), Loader(2, m2, IF rootIn = 2 THEN rootFile ELSE <<>>) >>
     /\ root = Name(TRUE, RootLocs[rl])
\* (NestedKind = "loop") one computed include executed for a list of names
LoopNames == << Name(TRUE, <<"a">>), Name(TRUE, <<"d", "a">>), Name(TRUE, <<"c">>), Name(TRUE, <<"nope">>), Name(TRUE, <<"d", "c">>) >>
LoopInit ==
  \E k \in {"lazy", "lazy_if"}, m1 \in Layouts, m2 \in Layouts, n \in 1..3 :
    \E pick \in [1..n -> 1..Len(LoopNames)] :
       LET rootFile == (<<"r">> :> <<Text("R"), Loop(k, [i \in 1..n |-> LoopNames[pick[i]]]), Text("!")>>) IN
       /\ loaders = << Loader(1, m1, rootFile), Loader(2, m2, <<>>) >>
       /\ root = Name(TRUE, <<"r">>)
Init ==
  /\ go = FALSE
  /\ IF NestedKind = "child" THEN ChildInit ELSE IF NestedKind = "loop" THEN LoopInit ELSE
     \E k \in 1..Len(Kinds), n \in 1..Len(Names), m1 \in Layouts, m2 \in Layouts, rl \in 1..2, rootIn \in {1, 2}, two \in BOOLEAN :
       /\ (Kinds[k] \in {"lazy", "lazy_if"} => Names[n].rooted)        \* computed names: rooted only
       /\ LET items == IF Kinds[k] = "extends" THEN <<Ref("extends", Names[n]), Text("junk")>>
                       ELSE <<Text("R["), Ref(Kinds[k], Names[n])>> \o
                            (IF two THEN <<Text("|"), Ref("include_if", Name(TRUE, <<"d", "a">>))>> ELSE <<>>) \o <<Text("]")>> IN
          LET rootFile == (RootLocs[rl] :> items) IN
          /\ loaders = << Loader(1, m1, IF rootIn = 1 THEN rootFile ELSE <<>>), Loader(2, m2, IF rootIn = 2 THEN rootFile ELSE <<>>) >>
          /\ root = Name(TRUE, RootLocs[rl])
Next == go = FALSE /\ go' = TRUE /\ UNCHANGED <<loaders, root>>

Res == Render(loaders, root, 6)
FirstWins == go => \A i \in 1..4 : FirstLoaderWins(loaders, Paths[i])
\* loaders printed as sequences of [path, items] pairs (paths are tuples, not JSON keys)
LoaderOut(l) == LET ps == DOMAIN l IN
                LET RECURSIVE ToSeq(_)
                    ToSeq(S) == IF S = {} THEN <<>> ELSE LET x == CHOOSE x \in S : TRUE IN <<[path |-> x, items |-> l[x]]>> \o ToSeq(S \ {x})
                IN ToSeq(ps)
AskedOut(S) == LET RECURSIVE ToSeq(_)
                   ToSeq(X) == IF X = {} THEN <<>> ELSE LET x == CHOOSE x \in X : TRUE IN <<[loader |-> x[1], path |-> x[2]]>> \o ToSeq(X \ {x})
               IN ToSeq(S)
EmitVec == go => PrintT(ToJson([m |-> "PongoLoader", loaders |-> <<LoaderOut(loaders[1]), LoaderOut(loaders[2])>>, root |-> root,
                                out |-> Res.out, err |-> Res.err, asked |-> AskedOut(Res.asked)]))
=============================================================================
