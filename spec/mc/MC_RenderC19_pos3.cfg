INIT Init
NEXT Next
CONSTANTS
  Family = "pos"
  MaxChain = 3
  RegFilters = {}
INVARIANTS Balanced EmitVec
