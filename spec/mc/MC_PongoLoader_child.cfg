INIT Init
NEXT Next
CONSTANTS
  Layouts = {0, 4, 8, 12, 15}
  NestedKind = "child"
INVARIANTS FirstWins EmitVec
