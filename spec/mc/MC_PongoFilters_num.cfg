INIT Init
NEXT Next
CONSTANTS
  Family = "num"
  MaxLen = 0
INVARIANTS Shapes EmitVec
