INIT Init
NEXT Next
CONSTANTS
  Family = "neg"
  MaxChain = 2
  RegFilters = {}
INVARIANTS Balanced EmitVec
