INIT Init
NEXT Next
CONSTANTS
  Depth = 1
  Family = "elifloop"
INVARIANTS Balanced EmitVec
