SPECIFICATION MCSpec
CONSTANTS
  MaxLen = 4
  Alpha = "code"
INVARIANTS CursorExact PositionExact HtmlExact Coverage NoDelimIdentity TokensOrdered VerbatimLiteral TrimFlags NoStuck Emit
PROPERTIES Progress
