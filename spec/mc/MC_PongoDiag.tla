------------------------------ MODULE MC_PongoDiag ------------------------------
EXTENDS PongoApi, Json
\* (family "diag", C16) constructs that fail - while compiling or while executing - behind every layout prefix, at every place a
\* construct can live: the template itself, a block of a child, a block reached through Super, a parent's own block, an included
\* file, an imported macro.  dfiles: the other templates of the program (name -> pieces).
VARIABLE dfiles
Failing == << <<"{{ 1/0 }}">>, <<"{{ fme() }}">>, <<"{{ 5|pluralize:\"a,b,c\" }}">>, <<"{% include nosuch %}">>, <<"{{ lm(1, 2, 3) }}">>, <<"{{ nope|yesno:\"a\" }}">>,
             <<"{{ 7 % 0 }}">>, <<"{% widthratio 1 0 1 %}">>, <<"{{ \"a\"|nosuchfilter }}">>, <<"{% nosuchtag %}">>, <<"{{ (1 }}">>, <<"{% if %}">>,
             <<"{% include \"/missing\" %}">>, <<"{{ rstr(1) }}">>, <<"{% for %}">>, <<"{{ \"x }}">>,
             \* a block tag that is never closed, with a trimming delimiter in front of the text that follows it (the error reports that text)
             <<"{% if 1 -%}">>, <<"{% for i in \"ab\" -%}  \t">>, <<"{% with a=1 %}{{ a -}}\n ">> >>
Prefixes == << <<>>, <<"x\n\n  ">>, <<"UTF8", "\r\n", "{# c #}">>, <<"{% verbatim %}{{{% endverbatim %}\n\t">>, <<"{{ \"a\\\"b\" }}\n", "  ">> >>
Places == <<"top", "childblock", "super", "parentblock", "included", "imported", "nestedinclude">>
DiagInit ==
  /\ ApiInit /\ steps = 0
  /\ \E f \in 1..Len(Failing), p \in 1..Len(Prefixes), pl \in 1..Len(Places) :
       LET body == Prefixes[p] \o Failing[f] \o <<"\ntail">> IN
       LET imp == <<"{% import \"/lib\" lm %}">> IN
       CASE Places[pl] = "top" -> form = imp \o body /\ dfiles = <<>>
         [] Places[pl] = "childblock" ->
              /\ form = <<"{% extends \"/pb\" %}\n\n">> \o imp \o <<"{% block b %}">> \o body \o <<"{% endblock %}">>
              /\ dfiles = [pb |-> <<"P{% block b %}pb{% endblock %}\n{% block c %}{% endblock %}">>]
         [] Places[pl] = "super" ->
              /\ form = <<"{% extends \"/mid\" %}\n{% block b %}x{{ block.Super }}{% endblock %}">>
              /\ dfiles = [pb |-> <<"P{% block b %}pb{% endblock %}">>, mid |-> <<"{% extends \"/pb\" %}">> \o imp \o <<"{% block b %}">> \o body \o <<"{% endblock %}">>]
         [] Places[pl] = "parentblock" ->
              /\ form = <<"{% extends \"/pe\" %}{% block c %}cc{% endblock %}">>
              /\ dfiles = [pe |-> <<"\n\nP">> \o imp \o <<"{% block b %}">> \o body \o <<"{% endblock %}{% block c %}{% endblock %}">>]
         [] Places[pl] = "included" -> form = <<"a\n{% include \"/inc1\" %}">> /\ dfiles = [inc1 |-> imp \o body]
         [] Places[pl] = "nestedinclude" -> form = <<"a\n{% for i in \"ab\" %}{% include \"/inc2\" %}{% endfor %}">> /\ dfiles = [inc2 |-> <<"\n {% include \"/inc1\" %}">>, inc1 |-> imp \o body]
         [] Places[pl] = "imported" -> form = <<"\n{% import \"/lib1\" bad %}{{ bad() }}">> /\ dfiles = [lib1 |-> imp \o <<"{% macro bad() export %}">> \o body \o <<"{% endmacro %}">>]
DiagNext == FALSE /\ UNCHANGED <<apiVars, genVars, dfiles>>
DiagEmit == PrintT(ToJson([m |-> "PongoApi", toks |-> form, files |-> dfiles]))
=============================================================================
