INIT Init
NEXT Next
CONSTANTS
  Family = "pad"
  MaxLen = 0
INVARIANTS Shapes EmitVec
