INIT Init
NEXT Next
CONSTANTS
  Family = "n2"
INVARIANTS PrinterUnambiguous ShortCircuit EmitVec
