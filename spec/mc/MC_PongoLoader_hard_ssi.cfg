INIT Init
NEXT Next
CONSTANTS
  Layouts = {0, 1, 5, 15}
  NestedKind = "ssi"
INVARIANTS FirstWins EmitVec
