INIT Init
NEXT Next
CONSTANTS
  Family = "ftparam"
  RegFilters = {}
INVARIANTS NoRaw EmitVec
