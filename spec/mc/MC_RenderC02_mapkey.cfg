INIT Init
NEXT Next
CONSTANTS
  Family = "mapkey"
  RegFilters = {}
INVARIANTS NoRaw EmitVec
