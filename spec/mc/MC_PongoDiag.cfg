INIT DiagInit
NEXT DiagNext
CONSTANTS
  RegTags = {}
  RegFilters = {}
  CtxNames = {}
  Budget = 0
INVARIANTS DiagEmit
