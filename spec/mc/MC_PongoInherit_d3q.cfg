INIT Init
NEXT Next
CONSTANTS
  Depth = 3
  Shapes = {0, 2, 7}
INVARIANTS DesignOK BlocksOK EmitVec
