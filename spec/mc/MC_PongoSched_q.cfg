INIT Init
NEXT Next
CONSTANTS
  NThreads = 2
  SchedLen = 8
INVARIANT Emit
