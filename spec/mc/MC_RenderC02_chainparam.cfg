INIT Init
NEXT Next
CONSTANTS
  Family = "chainparam"
  RegFilters = {}
INVARIANTS NoRaw EmitVec
