INIT Init
NEXT Next
CONSTANTS
  Family = "d2"
INVARIANTS Balanced EmitVec
