------------------------------- MODULE PongoDoc -------------------------------
(***************************************************************************)
(* Documents: from tokens to output, for the layout-only fragment of the   *)
(* language (C06 text fidelity, C15 whitespace control).                   *)
(*                                                                         *)
(* Two definitions of the same thing:                                      *)
(*  - FragOutput: a document is a sequence of *fragments* (whitespace runs, *)
(*    text, {{ v }}, block tags, comments, verbatim blocks, each construct  *)
(*    with optional '-' on either side); the output is defined on the       *)
(*    fragments - declaratively, "which whitespace does each marker name".  *)
(*  - TokOutput: the output computed from the token list the lexer          *)
(*    (PongoLexer) produces for the document's bytes, the way the engine    *)
(*    does it (text node adjacent to a trimming delimiter token).           *)
(* TLC checks that the two agree for every generated document (AgreeAtEnd)  *)
(* and the harness checks the real engine against both the marked source    *)
(* and the hand-stripped source (StrippedBytes).                            *)
(***************************************************************************)
EXTENDS PongoLexer

VARIABLES frags,   \* the document as fragments
          opts     \* [trim |-> BOOLEAN, lstrip |-> BOOLEAN]

docVars == <<frags, opts>>

Dash(b) == IF b THEN <<DASH>> ELSE <<>>
VarV == <<86>>                      \* the context maps v to "V"

\* fragment kinds: "ws", "text", "var", "set", "ifopen", "ifclose", "comment", "verb", "ttag", "ctag"
IsConstruct(f) == f.k \in {"var", "set", "ifopen", "ifclose", "ttag", "ctag"}
IsBlockTag(f)  == f.k \in {"set", "ifopen", "ifclose", "ttag", "ctag"}
IsText(f)      == f.k \in {"ws", "text"}

FragBytes(f) ==
  CASE f.k \in {"ws", "text"} -> f.b
    [] f.k = "var"     -> <<123,123>> \o Dash(f.l) \o <<32,118,32>> \o Dash(f.r) \o <<125,125>>            \* {{ v }}
    [] f.k = "set"     -> <<123,37>> \o Dash(f.l) \o <<32,115,101,116,32,120,61,49,32>> \o Dash(f.r) \o <<37,125>>   \* {% set x=1 %}
    [] f.k = "ifopen"  -> <<123,37>> \o Dash(f.l) \o <<32,105,102,32,49,32>> \o Dash(f.r) \o <<37,125>>     \* {% if 1 %}
    [] f.k = "ifclose" -> <<123,37>> \o Dash(f.l) \o <<32,101,110,100,105,102,32>> \o Dash(f.r) \o <<37,125>> \* {% endif %}
    [] f.k = "ttag"    -> <<123,37>> \o Dash(f.l) \o <<32,116,101,109,112,108,97,116,101,116,97,103,32,111,112,101,110,98,108,111,99,107,32>> \o Dash(f.r) \o <<37,125>>  \* {% templatetag openblock %}
    [] f.k = "ctag"    -> <<123,37>> \o Dash(f.l) \o <<32,99,111,109,109,101,110,116,32,37,125>> \o f.b \o <<123,37,32,101,110,100,99,111,109,109,101,110,116,32>> \o Dash(f.r) \o <<37,125>>  \* {% comment %}<body>{% endcomment %}
    [] f.k = "comment" -> <<123,35,32,123,123,32,99,32,35,125>>                                              \* {# {{ c #}
    [] f.k = "verb"    -> VerbatimOpen \o f.b \o VerbatimClose

DocBytes(fs) == Flatten([i \in 1..Len(fs) |-> FragBytes(fs[i])])

----------------------------------------------------------------------------
(* whitespace helpers on byte sequences *)

RECURSIVE TrimLeftSet(_, _)
TrimLeftSet(s, S) == IF s # <<>> /\ Head(s) \in S THEN TrimLeftSet(Tail(s), S) ELSE s
RECURSIVE TrimRightSet(_, _)
TrimRightSet(s, S) == IF s # <<>> /\ s[Len(s)] \in S THEN TrimRightSet(SubSeq(s, 1, Len(s) - 1), S) ELSE s
AllWS == {SP, TAB, CR, NL}
DropOneNL(s) == IF s # <<>> /\ Head(s) = NL THEN Tail(s) ELSE s

\* what is left of a literal text t given the construct on its left (L) and right (R); NoFrag = document boundary
NoFrag == [k |-> "none", b |-> <<>>, l |-> FALSE, r |-> FALSE]
Shape(t, L, R, o) ==
  LET t1 == IF o.trim /\ IsBlockTag(L) THEN DropOneNL(t) ELSE t                 \* TrimBlocks: the first newline after a block tag
      t2 == IF o.lstrip /\ IsBlockTag(R) THEN TrimRightSet(t1, {SP, TAB}) ELSE t1 \* LStripBlocks: spaces and tabs before a block tag
      t3 == IF IsConstruct(L) /\ L.r THEN TrimLeftSet(t2, AllWS) ELSE t2          \* -}} / -%} on the left
      t4 == IF IsConstruct(R) /\ R.l THEN TrimRightSet(t3, AllWS) ELSE t3         \* {{- / {%- on the right
  IN t4

----------------------------------------------------------------------------
(* fragment-level semantics *)

\* maximal runs of text fragments are one literal text; comments and verbatim delimiters do not produce
\* anything and separate runs (generated documents keep them away from trimming constructs)
RECURSIVE FragOut(_, _, _, _)
\* i: index of the next fragment; L: the fragment on the left of the pending run; run: the pending text
FragOut(i, L, run, o) ==
  LET fs == frags IN
  IF i > Len(fs) THEN Shape(run, L, NoFrag, o)
  ELSE LET f == fs[i] IN
    IF IsText(f) THEN FragOut(i + 1, L, run \o f.b, o)
    ELSE Shape(run, L, f, o) \o
         (CASE f.k = "var" -> VarV
            [] f.k = "ttag" -> <<123, 37>>
            [] f.k = "verb" -> f.b
            [] OTHER -> <<>>) \o
         FragOut(i + 1, f, <<>>, o)

FragOutput(o) == FragOut(1, NoFrag, <<>>, o)

\* the hand-stripped document: same constructs without dashes, texts already shaped; rendered with options off
RECURSIVE StripFrom(_, _, _, _)
StripFrom(i, L, run, o) ==
  LET fs == frags IN
  IF i > Len(fs) THEN Shape(run, L, NoFrag, o)
  ELSE LET f == fs[i] IN
    IF IsText(f) THEN StripFrom(i + 1, L, run \o f.b, o)
    ELSE Shape(run, L, f, o) \o FragBytes([f EXCEPT !.l = FALSE, !.r = FALSE]) \o StripFrom(i + 1, f, <<>>, o)
StrippedBytes(o) == StripFrom(1, NoFrag, <<>>, o)

----------------------------------------------------------------------------
(* token-level semantics (what the engine does with the lexer's tokens) *)

IsSym(t, v) == t.typ = "Symbol" /\ t.val = v
NextIdx(i, v) == LET S == {j \in i..Len(tokens) : IsSym(tokens[j], v)} IN
                 IF S = {} THEN Len(tokens) + 1 ELSE CHOOSE m \in S : \A j \in S : m <= j

TokText(i, o) ==
  LET t == tokens[i]
      prev == IF i > 1 THEN tokens[i - 1] ELSE [typ |-> "none", val |-> <<>>, trim |-> FALSE]
      next == IF i < Len(tokens) THEN tokens[i + 1] ELSE [typ |-> "none", val |-> <<>>, trim |-> FALSE]
      a == IF o.trim /\ IsSym(prev, <<37, 125>>) THEN DropOneNL(t.val) ELSE t.val
      b == IF o.lstrip /\ IsSym(next, <<123, 37>>) THEN TrimRightSet(a, {SP, TAB}) ELSE a
      c == IF prev.typ = "Symbol" /\ prev.trim THEN TrimLeftSet(b, AllWS) ELSE b
      d == IF next.typ = "Symbol" /\ next.trim THEN TrimRightSet(c, AllWS) ELSE c
  IN d

W_if == <<105,102>>  W_endif == <<101,110,100,105,102>>  W_set == <<115,101,116>>
W_templatetag == <<116,101,109,112,108,97,116,101,116,97,103>>
W_comment == <<99,111,109,109,101,110,116>>  W_endcomment == <<101,110,100,99,111,109,109,101,110,116>>
W_openblock == <<111,112,101,110,98,108,111,99,107>>

RECURSIVE TokOut(_, _)
TokOut(i, o) ==
  IF i > Len(tokens) THEN <<>>
  ELSE LET t == tokens[i] IN
    IF t.typ = "HTML" THEN TokText(i, o) \o TokOut(i + 1, o)
    ELSE IF IsSym(t, <<123, 123>>) THEN
       LET j == NextIdx(i, <<125, 125>>) IN VarV \o TokOut(j + 1, o)
    ELSE IF IsSym(t, <<123, 37>>) THEN
       LET j == NextIdx(i, <<37, 125>>)
           name == tokens[i + 1].val IN
       IF name = W_templatetag THEN <<123, 37>> \o TokOut(j + 1, o)
       ELSE IF name = W_comment THEN
            \* skip to the tag that closes the comment; nothing in between is interpreted
            LET S == {k \in (j + 1)..(Len(tokens) - 1) : IsSym(tokens[k], <<123, 37>>) /\ tokens[k + 1].val = W_endcomment}
                k == CHOOSE m \in S : \A x \in S : m <= x IN
            TokOut(NextIdx(k, <<37, 125>>) + 1, o)
       ELSE TokOut(j + 1, o)
    ELSE TokOut(i + 1, o)

TokOutput(o) == TokOut(1, o)

\* the two definitions agree on every generated document (checked when the lexer has finished)
AgreeAtEnd == (LexDone /\ err = NoErr) => TokOutput(opts) = FragOutput(opts)
\* literal text is never lost or invented: with no dashes and no options the output is the text fragments in order
LexesCleanly == LexDone => err = NoErr
=============================================================================
