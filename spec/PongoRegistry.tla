----------------------------- MODULE PongoRegistry -----------------------------
(***************************************************************************)
(* The process-global tag and filter registries (C19, last sentence):       *)
(* name -> implementation.  Register on an existing name is refused and     *)
(* changes nothing; Replace on a missing name likewise; a template using a  *)
(* name that is not registered does not compile (the filter tag may fail at *)
(* execution at the latest); a registered name resolves to the              *)
(* implementation registered last.                                         *)
(***************************************************************************)
EXTENDS Integers, Sequences, FiniteSets, TLC, Json

CONSTANTS MaxOps
Names == {"vf_a", "verif_filter_long_b"}          \* fresh names, not registered at start
Kinds == {"filter", "tag"}
Impls == {1, 2}

VARIABLES reg,    \* [Kinds -> [Names -> 0..2]]   0 = not registered, otherwise the implementation
          hist

Init == reg = [k \in Kinds |-> [n \in Names |-> 0]] /\ hist = <<>>

Register(k, n, i) ==
  /\ reg' = IF reg[k][n] = 0 THEN [reg EXCEPT ![k][n] = i] ELSE reg
  /\ hist' = Append(hist, [op |-> "Register", k |-> k, n |-> n, i |-> i, ok |-> reg[k][n] = 0, impl |-> reg'[k][n]])
Replace(k, n, i) ==
  /\ reg' = IF reg[k][n] # 0 THEN [reg EXCEPT ![k][n] = i] ELSE reg
  /\ hist' = Append(hist, [op |-> "Replace", k |-> k, n |-> n, i |-> i, ok |-> reg[k][n] # 0, impl |-> reg'[k][n]])
\* compile and run a template that uses the name: succeeds iff registered, and runs the current implementation
Use(k, n, how) ==
  /\ UNCHANGED reg
  /\ hist' = Append(hist, [op |-> "Use", k |-> k, n |-> n, i |-> 0, how |-> how, ok |-> reg[k][n] # 0, impl |-> reg[k][n]])

Next == /\ Len(hist) < MaxOps
        /\ \E k \in Kinds, n \in Names :
             \/ \E i \in Impls : Register(k, n, i) \/ Replace(k, n, i)
             \/ \E how \in {"expr", "filtertag", "apply"} : (k = "filter" \/ how = "expr") /\ Use(k, n, how)
Spec == Init /\ [][Next]_<<reg, hist>>

RefusalChangesNothing == [][\A k \in Kinds, n \in Names : (reg'[k][n] # reg[k][n]) => hist'[Len(hist')].ok]_<<reg, hist>>
KindsIndependent == [][\A k \in Kinds : (hist'[Len(hist')].k # k) => reg'[k] = reg[k]]_<<reg, hist>>
EmitHist == (Len(hist) = MaxOps) => PrintT(ToJson([m |-> "PongoRegistry", hist |-> hist]))
=============================================================================
