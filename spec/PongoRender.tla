------------------------------ MODULE PongoRender ------------------------------
(***************************************************************************)
(* Abstract interpreter of pongo2 documents: a big-step semantics           *)
(*      Exec(node, st) / ExecSeq(nodes, st) / Eval(expr, st)               *)
(* over abstract values, with an ordered event log (st.evs) that gives one  *)
(* specification step per hook event of the implementation.                *)
(* Used by C02 (escaping of written values), C09 (branching/looping),       *)
(* C12 (scoping), C13 (macros), C19 (filter order), C04/C05 (one render is  *)
(* a function of program and context).                                      *)
(*                                                                         *)
(* Values are records of one shape [k, n, s, l]:                            *)
(*   nil | bool(n) | int(n) | str(s: tuple of atoms) | list(l) |            *)
(*   map(l: tuple of pair values, sorted by key) | pair(l = <<key, val>>) | *)
(*   markup(l: output pieces; already escaped text) |                       *)
(*   ap(s = <<filter>>, l = <<input, argument>>)  - the symbolic result of   *)
(*        a registered filter the specification does not define; the         *)
(*        harness concretises it with the public ApplyFilter (C19's own      *)
(*        equivalence) |                                                     *)
(*   macro(s = <<name>>, n = index of the defining scope) | loop(l) - the    *)
(*        forloop record.                                                    *)
(* An atom is a TLA+ string standing for one character: ordinary letters,   *)
(* or "M<i>" = the i-th context marker (a run of < > & ' " unique to one    *)
(* context leaf), "E<i>" = its HTML-escaped form, "EE<i>" escaped twice.     *)
(* The output is a tuple of pieces, each a value:                           *)
(*   str(s) literal text | w(l = <<v>>, n = escape rounds) a written value   *)
(***************************************************************************)
EXTENDS Integers, Sequences, FiniteSets, TLC

V(k, n, s, l) == [k |-> k, n |-> n, s |-> s, l |-> l]
Nil == V("nil", 0, <<>>, <<>>)
B(b) == V("bool", IF b THEN 1 ELSE 0, <<>>, <<>>)
I(n) == V("int", n, <<>>, <<>>)
S(s) == V("str", 0, s, <<>>)
L(l) == V("list", 0, <<>>, l)
P(key, val) == V("pair", 0, <<>>, <<key, val>>)
M(pairs) == V("map", 0, <<>>, pairs)
Markup(pieces) == V("markup", 0, <<>>, pieces)
Ap(f, in, arg) == V("ap", 0, <<f>>, <<in, arg>>)
W(v, esc) == V("w", esc, <<>>, <<v>>)
MacroV(name, depth) == V("macro", depth, <<name>>, <<>>)

NoExpr == [t |-> "none"]

MaxMacroDepth == 6        \* 1000 in the implementation; only unbounded recursion reaches either bound in the generated programs

----------------------------------------------------------------------------
(* atoms *)

IsMark(a) == a \in {"M1", "M2", "M3", "M4"}
EscAtom(a) == CASE a = "M1" -> "E1" [] a = "M2" -> "E2" [] a = "M3" -> "E3" [] a = "M4" -> "E4"
                [] a = "E1" -> "EE1" [] a = "E2" -> "EE2" [] a = "E3" -> "EE3" [] a = "E4" -> "EE4"
                [] a = "<" -> "&lt;" [] a = ">" -> "&gt;" [] a = "&" -> "&amp;"
                [] OTHER -> a
EscStr(s) == [i \in 1..Len(s) |-> EscAtom(s[i])]
UpAtom(a) == CASE a = "a" -> "A" [] a = "b" -> "B" [] a = "c" -> "C" [] a = "d" -> "D" [] a = "e" -> "E" [] a = "f" -> "F" [] a = "g" -> "G" [] a = "h" -> "H" [] a = "i" -> "I" [] a = "j" -> "J" [] a = "k" -> "K" [] a = "l" -> "L" [] a = "m" -> "M" [] a = "n" -> "N" [] a = "o" -> "O" [] a = "p" -> "P" [] a = "q" -> "Q" [] a = "r" -> "R" [] a = "s" -> "S" [] a = "t" -> "T" [] a = "u" -> "U" [] a = "v" -> "V" [] a = "w" -> "W" [] a = "x" -> "X" [] a = "y" -> "Y" [] a = "z" -> "Z" [] a = "EACUTE" -> "EACUTE_UP" [] OTHER -> a
LoAtom(a) == CASE a = "A" -> "a" [] a = "B" -> "b" [] a = "C" -> "c" [] a = "D" -> "d" [] a = "E" -> "e" [] a = "F" -> "f" [] a = "G" -> "g" [] a = "H" -> "h" [] a = "I" -> "i" [] a = "J" -> "j" [] a = "K" -> "k" [] a = "L" -> "l" [] a = "M" -> "m" [] a = "N" -> "n" [] a = "O" -> "o" [] a = "P" -> "p" [] a = "Q" -> "q" [] a = "R" -> "r" [] a = "S" -> "s" [] a = "T" -> "t" [] a = "U" -> "u" [] a = "V" -> "v" [] a = "W" -> "w" [] a = "X" -> "x" [] a = "Y" -> "y" [] a = "Z" -> "z" [] a = "EACUTE_UP" -> "EACUTE" [] OTHER -> a

\* order of atoms (for `sorted` over strings and string-keyed maps): code point order of the plain letters used
AtomRank(a) == CASE a = "1" -> 1 [] a = "2" -> 2 [] a = "3" -> 3 [] a = "A" -> 10 [] a = "B" -> 11 [] a = "C" -> 12
                 [] a = "X" -> 13 [] a = "Y" -> 14 [] a = "a" -> 20 [] a = "b" -> 21 [] a = "c" -> 22
                 [] a = "x" -> 23 [] a = "y" -> 24 [] a = "z" -> 25 [] a = "EACUTE" -> 40 [] a = "CJK" -> 50 [] OTHER -> 30
RECURSIVE StrLess(_, _)
StrLess(a, b) == IF b = <<>> THEN FALSE ELSE IF a = <<>> THEN TRUE
                 ELSE IF AtomRank(Head(a)) # AtomRank(Head(b)) THEN AtomRank(Head(a)) < AtomRank(Head(b))
                 ELSE StrLess(Tail(a), Tail(b))

Digits(n) == CASE n = 0 -> "0" [] n = 1 -> "1" [] n = 2 -> "2" [] n = 3 -> "3" [] n = 4 -> "4" [] n = 5 -> "5"
               [] n = 6 -> "6" [] n = 7 -> "7" [] n = 8 -> "8" [] n = 9 -> "9"
RECURSIVE NatStr(_)
NatStr(n) == IF n < 10 THEN <<Digits(n)>> ELSE NatStr(n \div 10) \o <<Digits(n % 10)>>
IntStr(n) == IF n < 0 THEN <<"-">> \o NatStr(0 - n) ELSE NatStr(n)

\* canonical string form of a value (what printing it produces), for values the specification prints itself
RECURSIVE StrOf(_), PiecesStr(_)
PiecesStr(ps) == IF ps = <<>> THEN <<>> ELSE
                 (IF Head(ps).k = "w" THEN (IF Head(ps).n > 0 THEN EscStr(StrOf(Head(ps).l[1])) ELSE StrOf(Head(ps).l[1])) ELSE StrOf(Head(ps)))
                 \o PiecesStr(Tail(ps))
StrOf(v) == CASE v.k \in {"str", "stringer"} -> v.s
              [] v.k = "int" -> IntStr(v.n)
              [] v.k = "bool" -> IF v.n = 1 THEN <<"T","r","u","e">> ELSE <<"F","a","l","s","e">>
              [] v.k = "nil" -> <<>>
              [] v.k = "markup" -> PiecesStr(v.l)
              [] OTHER -> <<"?">>

----------------------------------------------------------------------------
(* truthiness, equality, ordering *)

Truthy(v) == CASE v.k = "nil" -> FALSE
               [] v.k = "bool" -> v.n = 1
               [] v.k = "int" -> v.n # 0
               [] v.k \in {"str", "stringer"} -> v.s # <<>>
               [] v.k \in {"list", "map"} -> v.l # <<>>
               [] v.k = "markup" -> v.l # <<>>
               [] OTHER -> TRUE

\* equality as `==`, ifequal, ifchanged use it: same kind and same content; nil equals nothing (not even nil)
ValEq(a, b) == /\ a.k = b.k /\ a.k \in {"bool", "int", "str"}
               /\ a.n = b.n /\ a.s = b.s

\* order used by `sorted`: integers numerically, everything else by string form
ValLess(a, b) == IF a.k = "int" /\ b.k = "int" THEN a.n < b.n ELSE StrLess(StrOf(a), StrOf(b))

RECURSIVE SortVals(_)
\* stable insertion sort (elements that compare equal keep their order: inserted after their equals)
SortVals(s) == IF s = <<>> THEN <<>> ELSE
               LET rest == SortVals(SubSeq(s, 1, Len(s) - 1)) x == s[Len(s)] IN
               LET RECURSIVE Ins(_)
                   Ins(r) == IF r = <<>> THEN <<x>> ELSE IF ValLess(x, Head(r)) THEN <<x>> \o r ELSE <<Head(r)>> \o Ins(Tail(r))
               IN Ins(rest)
Reverse(s) == [i \in 1..Len(s) |-> s[Len(s) + 1 - i]]

\* the sequence of (key, value) iteration items of a value; <<>> also for things that cannot be iterated
Items(v, rev, sorted) ==
  CASE v.k = "list" ->
         LET a == IF sorted THEN SortVals(v.l) ELSE v.l IN
         LET b == IF rev THEN Reverse(a) ELSE a IN [i \in 1..Len(b) |-> P(b[i], Nil)]
    [] v.k = "str" ->
         LET cs == [i \in 1..Len(v.s) |-> S(<<v.s[i]>>)] IN
         LET a == IF sorted THEN SortVals(cs) ELSE cs IN
         LET b == IF rev THEN Reverse(a) ELSE a IN [i \in 1..Len(b) |-> P(b[i], Nil)]
    [] v.k = "map" ->
         \* maps are generated with `sorted` (Go's map order is random otherwise); entries are kept sorted by key
         LET keys == SortVals([i \in 1..Len(v.l) |-> v.l[i].l[1]]) IN
         LET ks == IF rev THEN Reverse(keys) ELSE keys IN
         [i \in 1..Len(ks) |-> LET j == CHOOSE j \in 1..Len(v.l) : v.l[j].l[1] = ks[i] IN v.l[j]]
    [] OTHER -> <<>>

----------------------------------------------------------------------------
(* state *)

\* env: a stack of scopes (tuple of functions name -> value); the last is the innermost. A child scope starts as a
\* copy of its parent. pub: the caller's context merged over the globals.
InitState(pub) ==
  [env |-> << <<>> >>, pub |-> pub, out |-> <<>>, err |-> "", auto |-> TRUE,
   cyc |-> <<>>, cycn |-> <<>>, chg |-> <<>>, depth |-> 0, evs |-> <<>>, macros |-> <<>>, path |-> <<>>, files |-> <<>>, globals |-> <<>>, symbolic |-> FALSE]

Has(f, x) == x \in DOMAIN f
Top(st) == st.env[Len(st.env)]
Lookup(st, x) == IF Has(Top(st), x) THEN Top(st)[x] ELSE IF Has(st.pub, x) THEN st.pub[x] ELSE Nil
Bind(st, x, v) == [st EXCEPT !.env[Len(st.env)] = (x :> v) @@ @]
Push(st) == [st EXCEPT !.env = Append(@, Top(st)), !.evs = Append(@, <<"Push">>)]
Pop(st) == [st EXCEPT !.env = SubSeq(@, 1, Len(@) - 1)]
Emit(st, piece) == [st EXCEPT !.out = Append(@, piece)]
Fail(st, msg) == IF st.err # "" THEN st ELSE [st EXCEPT !.err = msg]
Ev(st, e) == [st EXCEPT !.evs = Append(@, e)]

\* the value a `cycle ... as name` tag binds: a reference to that tag occurrence (s = its path) holding the value the cycle
\* is at (l[1]).  Everywhere but as the argument of another cycle tag it reads as an object that prints what it holds.
CycV(path, held) == V("cyc", 0, path, <<held>>)
IsCycRef(st, e) == e.t = "var" /\ Len(e.path) = 1 /\ Lookup(st, e.path[1]).k = "cyc"
\* the held value changes for everybody who holds the reference
Reheld(env, key, held) ==
  [lvl \in DOMAIN env |-> [nm \in DOMAIN env[lvl] |->
      IF env[lvl][nm].k = "cyc" THEN (IF env[lvl][nm].s = key THEN CycV(key, held) ELSE env[lvl][nm]) ELSE env[lvl][nm]]]

\* per-render state keyed by the identity of the tag occurrence (node id)
GetK(f, id, dflt) == IF id \in DOMAIN f THEN f[id] ELSE dflt
SetK(f, id, v) == (id :> v) @@ f

LoopRec(idx, count, parent) ==
  V("loop", 0, <<>>, <<I(idx + 1), I(idx), I(count - idx), I(count - idx - 1), B(idx = 0), B(idx = count - 1), parent>>)
LoopField(lr, f) == CASE f = "Counter" -> lr.l[1] [] f = "Counter0" -> lr.l[2] [] f = "Revcounter" -> lr.l[3]
                      [] f = "Revcounter0" -> lr.l[4] [] f = "First" -> lr.l[5] [] f = "Last" -> lr.l[6]
                      [] f = "Parentloop" -> lr.l[7] [] OTHER -> Nil

----------------------------------------------------------------------------
(* filters the specification defines itself (the rest stay symbolic) *)

\* the HTML-aware truncation filters hand back markup that is not escaped again (an explicit opt-out named by C02)
SafeOutFilters == {"truncatechars_html", "truncatewords_html"}
\* every (non-overlapping, leftmost first) occurrence of sub removed from s
RECURSIVE RemoveSub(_, _)
RemoveSub(s, sub) == IF sub = <<>> \/ Len(s) < Len(sub) THEN s
                     ELSE IF SubSeq(s, 1, Len(sub)) = sub THEN RemoveSub(SubSeq(s, Len(sub) + 1, Len(s)), sub)
                     ELSE <<Head(s)>> \o RemoveSub(Tail(s), sub)
DefinedFilters == {"safe", "escape", "e", "length", "upper", "lower", "add", "default", "first", "last", "join", "cut", "capfirst"}

ApplyDefined(f, v, a) ==
  CASE f = "safe" -> v
    [] f \in {"escape", "e"} -> S(EscStr(StrOf(v)))
    [] f = "length" -> I(CASE v.k = "str" -> Len(v.s) [] v.k = "markup" -> Len(PiecesStr(v.l)) [] v.k \in {"list", "map"} -> Len(v.l) [] OTHER -> 0)
    [] f = "upper" -> S([i \in 1..Len(StrOf(v)) |-> UpAtom(StrOf(v)[i])])
    [] f = "lower" -> S([i \in 1..Len(StrOf(v)) |-> LoAtom(StrOf(v)[i])])
    [] f = "add" -> IF v.k = "int" /\ a.k = "int" THEN I(v.n + a.n) ELSE S(StrOf(v) \o StrOf(a))
    [] f = "default" -> IF Truthy(v) THEN v ELSE a
    [] f = "first" -> IF v.k = "str" /\ v.s # <<>> THEN S(<<v.s[1]>>) ELSE IF v.k = "list" /\ v.l # <<>> THEN v.l[1] ELSE S(<<>>)
    [] f = "last" -> IF v.k = "str" /\ v.s # <<>> THEN S(<<v.s[Len(v.s)]>>) ELSE IF v.k = "list" /\ v.l # <<>> THEN v.l[Len(v.l)] ELSE S(<<>>)
    [] f = "capfirst" -> IF v.k = "str" /\ v.s # <<>> THEN S(<<UpAtom(v.s[1])>> \o Tail(v.s)) ELSE S(<<>>)
    [] f = "cut" -> S(RemoveSub(StrOf(v), StrOf(a)))
    [] f = "join" ->
         IF v.k = "list" THEN
           LET RECURSIVE J(_)
               J(i) == IF i > Len(v.l) THEN <<>> ELSE (IF i > 1 THEN StrOf(a) ELSE <<>>) \o StrOf(v.l[i]) \o J(i + 1)
           IN S(J(1))
         ELSE v
    [] OTHER -> Nil

----------------------------------------------------------------------------
(* tags that work on rendered text *)
SelectSeqIdx(s, Keep(_)) == LET idx == SelectSeq([i \in 1..Len(s) |-> i], Keep) IN [k \in 1..Len(idx) |-> s[idx[k]]]
\* spaceless: white space between two tags is removed - a maximal run of white space directly after a ">" that closes a
\* tag written on one line and directly before a "<" that opens one
SpWS(a) == a \in {" ", "NL", "TAB", "CR"}
Removable(s, i, j) ==       \* s[i..j] is a maximal white-space run
  /\ i > 1 /\ s[i - 1] = ">"
  /\ \E p \in 1..(i - 2) : s[p] = "<" /\ \A q \in (p + 1)..(i - 2) : s[q] # "NL"
  /\ j < Len(s) /\ s[j + 1] = "<"
  /\ \E p \in (j + 2)..Len(s) : s[p] = ">" /\ \A q \in (j + 2)..(p - 1) : s[q] # "NL"
MaxRun(s, i, j) == /\ i <= j /\ \A q \in i..j : SpWS(s[q])
                   /\ (i = 1 \/ ~SpWS(s[i - 1])) /\ (j = Len(s) \/ ~SpWS(s[j + 1]))
Spaceless(s) == SelectSeqIdx(s, LAMBDA q : ~\E i \in 1..q : \E j \in q..Len(s) : MaxRun(s, i, j) /\ Removable(s, i, j))

TemplateTagText(name) ==
  CASE name = "openblock" -> <<"{", "%">> [] name = "closeblock" -> <<"%", "}">> [] name = "openvariable" -> <<"{", "{">>
    [] name = "closevariable" -> <<"}", "}">> [] name = "openbrace" -> <<"{">> [] name = "closebrace" -> <<"}">>
    [] name = "opencomment" -> <<"{", "#">> [] name = "closecomment" -> <<"#", "}">>
\* widthratio value max width: value / max * width rounded to the nearest integer (exact halves are not generated)
RoundDiv(num, m) == LET q == num \div m r == num % m IN IF 2 * r >= m THEN q + 1 ELSE q

----------------------------------------------------------------------------
(* the interpreter *)
DerefCyc(v) == IF v.k = "cyc" THEN V("stringer", 0, StrOf(v.l[1]), <<>>) ELSE v


RECURSIVE Eval(_, _), EvalChain(_, _, _, _), EvalTagChain(_, _, _, _), Exec(_, _), ExecSeq(_, _, _), ExecItems(_, _, _, _), Loop(_, _, _, _, _),
          CallMacro(_, _, _, _), BindDefaults(_, _, _, _, _), ExecWith(_, _, _, _), FirstOf(_, _, _), EvalList(_, _, _),
          IfChain(_, _, _), EvalPath(_, _, _), EvalPairs(_, _, _, _)

\* result of an evaluation: [v |-> value, st |-> state, safe |-> BOOLEAN]
\* `safe`: the value needs no escaping when written (macro results, Super, `safe` values from Go, |safe)
R(v, st, safe) == [v |-> v, st |-> st, safe |-> safe]

\* does the expression carry |safe syntactically (as the engine asks: FilterApplied("safe") on the whole expression)
RECURSIVE HasSafe(_)
HasSafe(e) == CASE e.t = "filt" -> \E i \in 1..Len(e.chain) : e.chain[i].f = "safe"
                [] e.t = "bin" -> HasSafe(e.a) /\ HasSafe(e.b)
                [] OTHER -> FALSE

EvalPath(v, path, i) ==
  IF i > Len(path) THEN v
  ELSE LET p == path[i] IN
       LET nv == CASE v.k = "loop" -> LoopField(v, p)
                   [] v.k = "list" -> LET idx == CASE p = "0" -> 1 [] p = "1" -> 2 [] p = "2" -> 3 [] OTHER -> 0 IN
                                      IF idx >= 1 /\ idx <= Len(v.l) THEN v.l[idx] ELSE Nil
                   [] v.k = "struct" -> LET hits == {j \in 1..Len(v.l) : v.l[j].l[1] = S(<<p>>)} IN
                                        IF hits = {} THEN Nil ELSE v.l[CHOOSE j \in hits : TRUE].l[2]
                   [] v.k = "map" -> LET hits == {j \in 1..Len(v.l) : v.l[j].l[1] = S(<<p>>)} IN
                                     IF hits = {} THEN Nil ELSE v.l[CHOOSE j \in hits : TRUE].l[2]
                   [] OTHER -> Nil
       IN EvalPath(nv, path, i + 1)

Eval(e, st) ==
  IF st.err # "" THEN R(Nil, st, FALSE)
  ELSE CASE e.t = "lit" -> R(e.v, st, FALSE)
    [] e.t = "var" -> LET v0 == DerefCyc(Lookup(st, e.path[1])) IN
                      LET v == EvalPath(v0, e.path, 2) IN R(v, st, v.k = "markup")
    [] e.t = "sub" ->
         \* e[i]: list/string by integer index, map by key; out of range or missing: the empty value; a scalar: error
         LET r == Eval(e.e, st) IN LET ri == Eval(e.i, r.st) IN
         IF ri.st.err # "" THEN R(Nil, ri.st, FALSE)
         ELSE CASE r.v.k = "list" -> R(IF ri.v.k = "int" /\ ri.v.n >= 0 /\ ri.v.n < Len(r.v.l) THEN r.v.l[ri.v.n + 1] ELSE Nil, ri.st, FALSE)
                [] r.v.k = "str" -> R(IF ri.v.k = "int" /\ ri.v.n >= 0 /\ ri.v.n < Len(r.v.s) THEN S(<<r.v.s[ri.v.n + 1]>>) ELSE Nil, ri.st, FALSE)
                [] r.v.k = "map" -> LET hits == {j \in 1..Len(r.v.l) : r.v.l[j].l[1] = ri.v} IN
                                    R(IF hits = {} THEN Nil ELSE r.v.l[CHOOSE j \in hits : TRUE].l[2], ri.st, FALSE)
                [] r.v.k = "nil" -> R(Nil, ri.st, FALSE)
                [] OTHER -> R(Nil, Fail(ri.st, "cannot index a scalar"), FALSE)
    [] e.t = "arr" -> LET r == EvalList(e.items, st, <<>>) IN R(L(r.v), r.st, FALSE)
    [] e.t = "filt" -> LET r == Eval(e.e, st) IN EvalChain(e.chain, 1, r, r.st)
    [] e.t = "not" -> LET r == Eval(e.a, st) IN R(B(~Truthy(r.v)), r.st, FALSE)
    \* unary minus applies to its whole operand - a literal or name *with* its filters (a filter binds tighter than any operator)
    [] e.t = "neg" -> LET r == Eval(e.a, st) IN R(I(0 - (IF r.v.k = "int" THEN r.v.n ELSE 0)), r.st, FALSE)
    [] e.t = "bin" ->
         LET ra == Eval(e.a, st) IN
         IF e.op = "and" THEN (IF ~Truthy(ra.v) THEN R(B(FALSE), ra.st, FALSE)
                               ELSE LET rb == Eval(e.b, ra.st) IN R(B(Truthy(rb.v)), rb.st, FALSE))
         ELSE IF e.op = "or" THEN (IF Truthy(ra.v) THEN R(B(TRUE), ra.st, FALSE)
                                   ELSE LET rb == Eval(e.b, ra.st) IN R(B(Truthy(rb.v)), rb.st, FALSE))
         ELSE LET rb == Eval(e.b, ra.st) IN
              CASE e.op = "==" -> R(B(ValEq(ra.v, rb.v)), rb.st, FALSE)
                [] e.op = "!=" -> R(B(~ValEq(ra.v, rb.v)), rb.st, FALSE)
                [] e.op = "<"  -> R(B(ra.v.n < rb.v.n), rb.st, FALSE)
                \* (text - also text marked safe - on either side makes it a concatenation of the printed forms; the mark does not survive)
                [] e.op = "+"  -> IF ra.v.k \in {"str", "markup"} \/ rb.v.k \in {"str", "markup"} THEN R(S(StrOf(ra.v) \o StrOf(rb.v)), rb.st, FALSE)
                                  ELSE R(I(ra.v.n + rb.v.n), rb.st, FALSE)
                [] e.op = "/"  -> IF rb.v.n = 0 THEN R(Nil, Fail(rb.st, "division by zero"), FALSE)           \* (non-negative integers only)
                                  ELSE R(I(ra.v.n \div rb.v.n), rb.st, FALSE)
                [] e.op = "in" -> R(B(CASE rb.v.k = "list" -> \E i \in 1..Len(rb.v.l) : ValEq(rb.v.l[i], ra.v)
                                        [] rb.v.k = "map" -> \E i \in 1..Len(rb.v.l) : rb.v.l[i].l[1] = ra.v
                                        [] OTHER -> FALSE), rb.st, FALSE)
                [] OTHER -> R(Nil, Fail(rb.st, "unimplemented operator"), FALSE)
    [] e.t = "call" ->
         LET f == Lookup(st, e.name) IN
         IF f.k = "nil" THEN R(Nil, st, FALSE)            \* an unknown name is nil, and nil along the way is the empty value
         ELSE IF f.k # "macro" THEN R(Nil, Fail(st, "not a function"), FALSE)
         ELSE LET ra == EvalList(e.args, st, <<>>) IN CallMacro(f, ra.v, ra.st, e.name)
    [] OTHER -> R(Nil, Fail(st, "bad expression"), FALSE)

\* name=expr pairs (include ... with): evaluated left to right in the current scope; result: a scope
EvalPairs(pairs, i, st, acc) ==
  IF i > Len(pairs) \/ st.err # "" THEN R(acc, st, FALSE)
  ELSE LET r == Eval(pairs[i].e, st) IN EvalPairs(pairs, i + 1, r.st, (pairs[i].name :> r.v) @@ acc)

EvalList(es, st, acc) ==
  IF es = <<>> \/ st.err # "" THEN R(acc, st, FALSE)
  ELSE LET r == Eval(Head(es), st) IN EvalList(Tail(es), r.st, Append(acc, r.v))

\* v|f1:a1|f2:a2 ... : left to right, each argument evaluated in the current scope when its filter is applied
EvalChain(chain, i, r, st) ==
  IF i > Len(chain) \/ st.err # "" THEN R(r.v, st, r.safe)
  ELSE LET c == chain[i] IN
       LET ra == IF c.arg.t = "none" THEN R(Nil, st, FALSE) ELSE Eval(c.arg, st) IN
       LET st1 == Ev(ra.st, <<"Filter", c.f>>) IN
       \* with st.symbolic every filter except `safe` stays symbolic (families that sweep the whole registry)
       LET nv == IF c.f \in DefinedFilters /\ (~st.symbolic \/ c.f = "safe") THEN ApplyDefined(c.f, r.v, ra.v) ELSE Ap(c.f, r.v, ra.v) IN
       \* safe-ness: a filter result is an ordinary value again, except that |safe - and any filter that hands back the very
       \* value it was given (default on a true value, join on something that is no sequence) - keeps the mark of what it is given
       LET keeps == c.f = "safe" \/ (~st.symbolic /\ ((c.f = "default" /\ Truthy(r.v)) \/ (c.f = "join" /\ r.v.k # "list"))) IN
       EvalChain(chain, i + 1, R(nv, st1, IF keeps THEN r.safe ELSE c.f \in SafeOutFilters), st1)

\* text inside a parameter of the filter tag, escaped: the value itself, the items of a list, the values of a map
RECURSIVE EscParam(_)
EscParam(v) == CASE v.k \in {"str", "stringer"} -> S(EscStr(StrOf(v)))
                 [] v.k = "list" -> L([i \in 1..Len(v.l) |-> EscParam(v.l[i])])
                 [] v.k = "map" -> M([i \in 1..Len(v.l) |-> P(v.l[i].l[1], EscParam(v.l[i].l[2]))])
                 [] OTHER -> v
\* the chain of the `filter` tag: as EvalChain, but text in a parameter (not a literal of the template, not marked safe; also inside a list or map) is
\* escaped while autoescape is on - the tag's result is written without further escaping
EvalTagChain(chain, i, r, st) ==
  IF i > Len(chain) \/ st.err # "" THEN R(r.v, st, r.safe)
  ELSE LET c == chain[i] IN
       LET ra0 == IF c.arg.t = "none" THEN R(Nil, st, FALSE) ELSE Eval(c.arg, st) IN
       LET isLit == c.arg.t = "lit" IN
       LET pv == IF c.arg.t # "none" /\ st.auto /\ ~isLit /\ ~ra0.safe THEN EscParam(ra0.v) ELSE ra0.v IN
       LET st1 == Ev(ra0.st, <<"Filter", c.f>>) IN
       LET nv == IF c.f \in DefinedFilters /\ (~st.symbolic \/ c.f = "safe") THEN ApplyDefined(c.f, r.v, pv) ELSE Ap(c.f, r.v, pv) IN
       EvalTagChain(chain, i + 1, R(nv, st1, IF c.f = "safe" THEN r.safe ELSE c.f \in SafeOutFilters), st1)

\* writing a value: escaped iff autoescape is on, the expression has no |safe, the value is not marked safe and is a string
WriteVal(st, e, r) ==
  \* (a fmt.Stringer prints arbitrary text of the caller's: it is escaped like a string)
  LET esc == st.auto /\ ~HasSafe(e) /\ ~r.safe /\ r.v.k \in {"str", "ap", "stringer"} IN
  Emit(Ev(st, <<"Write", st.auto, HasSafe(e), r.safe>>), W(r.v, IF esc THEN 1 ELSE 0))

CallMacro(f, args, st, name) ==
  LET m == st.macros[<<f.s[1], f.n>>] IN      \* the definition this value was made from: name and the scope level it was defined at
  IF st.err # "" THEN R(Nil, st, TRUE)
  ELSE IF st.depth + 1 > MaxMacroDepth THEN R(Nil, Fail(st, "macro depth"), TRUE)
  ELSE IF Len(args) > Len(m.params) THEN R(Nil, Fail(st, "too many arguments"), TRUE)
  ELSE \* the body runs in a child of the scope the macro was defined in (as that scope is now), not of the caller's
       LET defscope == st.env[f.n] IN
       LET st0 == [st EXCEPT !.depth = @ + 1, !.evs = Append(@, <<"MacroIn", st.depth + 1>>)] IN
       \* defaults are evaluated in the defining scope
       LET stD == [st0 EXCEPT !.env = SubSeq(st0.env, 1, f.n)] IN
       LET rb == BindDefaults(m.params, 1, args, stD, defscope) IN
       IF rb.st.err # "" THEN R(Nil, [rb.st EXCEPT !.env = st.env, !.depth = st.depth], TRUE)
       ELSE
       LET stB == [rb.st EXCEPT !.env = Append(SubSeq(st0.env, 1, f.n), rb.v), !.out = <<>>,
                                !.evs = Append(@, <<"Push">>)] IN
       LET st2 == ExecSeq(m.body, [stB EXCEPT !.path = <<"macro", f.s[1]>>], 0) IN
       LET res == Markup(st2.out) IN
       R(res, [st2 EXCEPT !.env = st.env, !.out = rb.st.out, !.depth = st.depth, !.path = st.path,
                          !.evs = Append(@, <<"MacroOut">>)], TRUE)

\* scope of the macro body: defining scope + parameters (argument i to parameter i, else default, else nil)
BindDefaults(params, i, args, st, scope) ==
  IF i > Len(params) \/ st.err # "" THEN R(scope, st, FALSE)
  ELSE LET p == params[i] IN
       LET rd == IF p.def.t = "none" THEN R(Nil, st, FALSE) ELSE Eval(p.def, st) IN
       LET v == IF i <= Len(args) THEN args[i] ELSE rd.v IN
       BindDefaults(params, i + 1, args, rd.st, (p.name :> v) @@ scope)

IfChain(n, i, st) ==
  IF i > Len(n.conds) THEN (IF Len(n.bodies) > Len(n.conds) THEN ExecSeq(n.bodies[Len(n.bodies)], st, Len(n.bodies)) ELSE st)
  ELSE LET r == Eval(n.conds[i], st) IN
       IF r.st.err # "" THEN r.st
       ELSE IF Truthy(r.v) THEN ExecSeq(n.bodies[i], r.st, i) ELSE IfChain(n, i + 1, r.st)

FirstOf(args, i, st) ==
  IF i > Len(args) \/ st.err # "" THEN st
  ELSE LET r == Eval(args[i], st) IN
       IF r.st.err # "" THEN r.st
       ELSE IF Truthy(r.v) THEN
              \* firstof escapes whatever it prints unless |safe is written
              LET esc == r.st.auto /\ ~HasSafe(args[i]) IN
              Emit(r.st, W(r.v, IF esc THEN 1 ELSE 0))
            ELSE FirstOf(args, i + 1, r.st)

Loop(n, items, idx, parent, st) ==
  IF idx >= Len(items) \/ st.err # "" THEN st
  ELSE LET it == items[idx + 1] IN
       LET lr == LoopRec(idx, Len(items), parent) IN
       LET st1 == Bind(Bind(st, n.key, it.l[1]), "forloop", lr) IN
       LET st2 == IF n.val # "" THEN Bind(st1, n.val, it.l[2]) ELSE st1 IN
       LET st3 == Ev(st2, <<"Iter", idx, Len(items)>>) IN
       Loop(n, items, idx + 1, parent, ExecSeq(n.body, st3, 1))

ExecWith(pairs, i, outer, st) ==
  \* every pair is evaluated in the enclosing scope and bound in the new one
  IF i > Len(pairs) \/ st.err # "" THEN st
  ELSE LET stO == [st EXCEPT !.env = SubSeq(st.env, 1, Len(st.env) - 1)] IN
       LET r == Eval(pairs[i].e, stO) IN
       LET stN == [r.st EXCEPT !.env = Append(r.st.env, Top(st))] IN
       ExecWith(pairs, i + 1, outer, Bind(stN, pairs[i].name, r.v))

Exec(n, st) ==
  IF st.err # "" THEN st
  ELSE CASE n.t = "text" -> Emit(st, S(n.s))
    [] n.t = "out" -> LET r == Eval(n.e, st) IN IF r.st.err # "" THEN r.st ELSE WriteVal(r.st, n.e, r)
    [] n.t = "if" -> IfChain(n, 1, st)
    [] n.t = "ifequal" ->
         LET ra == Eval(n.a, st) IN LET rb == Eval(n.b, ra.st) IN
         IF rb.st.err # "" THEN rb.st
         ELSE IF ValEq(ra.v, rb.v) = (n.neg = FALSE) THEN ExecSeq(n.body, rb.st, 1) ELSE ExecSeq(n.els, rb.st, 2)
    [] n.t = "firstof" -> FirstOf(n.args, 1, st)
    [] n.t = "for" ->
         LET st1 == Push(st) IN
         LET parent == IF Has(Top(st), "forloop") THEN Top(st)["forloop"] ELSE Nil IN
         LET r == Eval(n.e, st1) IN
         IF r.st.err # "" THEN Pop(r.st)
         ELSE LET items == Items(r.v, n.rev, n.sorted) IN
              IF items = <<>> THEN Pop(ExecSeq(n.empty, r.st, 2))
              ELSE Pop(Loop(n, items, 0, parent, r.st))
    [] n.t = "with" -> Pop(ExecSeq(n.body, ExecWith(n.pairs, 1, st, Push(st)), 1))
    [] n.t = "set" -> LET r == Eval(n.e, st) IN IF r.st.err # "" THEN r.st ELSE Bind(r.st, n.name, r.v)
    [] n.t = "macro" ->
         Bind([st EXCEPT !.macros = (<<n.name, Len(st.env)>> :> n) @@ @], n.name, MacroV(n.name, Len(st.env)))
    [] n.t = "cycle" ->
         LET i == GetK(st.cyc, st.path, 0) IN
         LET item == n.args[(i % Len(n.args)) + 1] IN
         LET escOf(e, v, safe, s0) == IF s0.auto /\ ~HasSafe(e) /\ ~safe /\ v.k \in {"str", "ap", "stringer"} THEN 1 ELSE 0 IN
         IF IsCycRef(st, item) THEN
            \* the argument names the value of another cycle tag: that cycle moves on, the reference now holds its next value
            \* and - unless that tag is silent - the value is printed; this tag binds nothing
            LET ref == Lookup(st, item.path[1]) IN
            LET rn == st.cycn[ref.s] IN
            LET stA == [st EXCEPT !.cyc = SetK(@, st.path, i + 1)] IN
            LET j == GetK(stA.cyc, ref.s, 0) IN
            LET item2 == rn.args[(j % Len(rn.args)) + 1] IN
            LET st1 == [stA EXCEPT !.cyc = SetK(@, ref.s, j + 1)] IN
            \* (an argument that names a cycle value - possibly this very one - stands for what that value holds)
            LET r2 == IF IsCycRef(st1, item2) THEN R(Lookup(st1, item2.path[1]).l[1], st1, Lookup(st1, item2.path[1]).l[1].k = "markup") ELSE Eval(item2, st1) IN
            IF r2.st.err # "" THEN r2.st
            ELSE LET st2 == [r2.st EXCEPT !.env = Reheld(@, ref.s, r2.v)] IN
                 IF rn.silent THEN st2 ELSE Emit(st2, W(r2.v, escOf(item2, r2.v, r2.safe, st2)))
         ELSE
         LET r == Eval(item, st) IN
         IF r.st.err # "" THEN r.st
         ELSE LET st1 == [r.st EXCEPT !.cyc = SetK(@, st.path, i + 1), !.cycn = SetK(@, st.path, n)] IN
              LET st2 == IF n.as # "" THEN Bind(st1, n.as, CycV(st.path, r.v)) ELSE st1 IN
              \* cycle prints like a variable would: escaped under autoescape
              IF n.silent THEN st2 ELSE Emit(st2, W(r.v, escOf(item, r.v, r.safe, st2)))
    [] n.t = "ifchanged" ->
         LET last == GetK(st.chg, st.path, [has |-> FALSE, v |-> <<>>]) IN
         IF n.args = <<>> THEN
            \* no watched expression: the rendered body is compared with what this tag rendered last time
            LET st1 == ExecSeq(n.body, [st EXCEPT !.out = <<>>], 1) IN
            IF st1.err # "" THEN st1
            ELSE IF ~last.has \/ last.v # st1.out
                   THEN [st1 EXCEPT !.out = st.out \o st1.out, !.chg = SetK(@, st.path, [has |-> TRUE, v |-> st1.out])]
                   ELSE [st1 EXCEPT !.out = st.out]
         ELSE
            LET r == EvalList(n.args, st, <<>>) IN
            IF r.st.err # "" THEN r.st
            ELSE LET st1 == [r.st EXCEPT !.chg = SetK(@, st.path, [has |-> TRUE, v |-> r.v])] IN
                 LET changed == ~last.has \/ \E i \in 1..Len(r.v) : ~ValEq(last.v[i], r.v[i]) IN
                 IF changed THEN ExecSeq(n.body, st1, 1) ELSE ExecSeq(n.els, st1, 2)
    [] n.t = "autoescape" ->
         LET st1 == ExecSeq(n.body, [st EXCEPT !.auto = n.on], 1) IN [st1 EXCEPT !.auto = st.auto]
    [] n.t = "filter" ->
         \* the body is rendered (and escaped) first, the chain is applied to that text and the result is written as it is;
         \* what a filter takes from a parameter is escaped before the filter sees it (EvalTagChain)
         LET st1 == ExecSeq(n.body, [st EXCEPT !.out = <<>>], 1) IN
         IF st1.err # "" THEN st1
         ELSE LET r == EvalTagChain(n.chain, 1, R(S(PiecesStr(st1.out)), st1, FALSE), [st1 EXCEPT !.out = st.out]) IN
              IF r.st.err # "" THEN r.st ELSE Emit(r.st, W(r.v, 0))
    [] n.t = "spaceless" ->
         LET st1 == ExecSeq(n.body, [st EXCEPT !.out = <<>>], 1) IN
         IF st1.err # "" THEN st1 ELSE [st1 EXCEPT !.out = Append(st.out, S(Spaceless(PiecesStr(st1.out))))]
    [] n.t = "templatetag" -> Emit(st, S(TemplateTagText(n.name)))
    [] n.t = "comment" -> st                 \* nothing of a comment tag's body is executed
    [] n.t = "widthratio" ->
         LET ra == Eval(n.a, st) IN LET rm == Eval(n.m, ra.st) IN LET rw == Eval(n.w, rm.st) IN
         IF rw.st.err # "" THEN rw.st
         ELSE LET value == I(RoundDiv(ra.v.n * rw.v.n, rm.v.n)) IN
              IF n.as = "" THEN Emit(rw.st, W(value, 0)) ELSE Bind(rw.st, n.as, value)     \* `as` binds in the current scope, like set
    [] n.t = "include" ->
         \* the included template is a render of its own: it sees the includer's view (tag-set names over the caller's
         \* context) plus the pairs, or the pairs alone with `only`; nothing it binds survives; per-render tag state is its own
         IF ~Has(st.files, n.name) THEN Fail(st, "include: no such template")
         ELSE LET rp == EvalPairs(n.pairs, 1, st, <<>>) IN
              IF rp.st.err # "" THEN rp.st
              ELSE \* (the set's globals are visible in every template of the set, also under `only`)
                   LET view == IF n.only THEN rp.v @@ st.globals ELSE rp.v @@ Top(st) @@ st.pub IN
                   \* (a macro of the includer that the included template calls - it is among the names it sees - is still the includer's
                   \*  macro: its body runs in a child of the scope it was defined in, and the depth of macro calls keeps counting)
                   LET sub == [InitState(view) EXCEPT !.files = st.files, !.globals = st.globals, !.symbolic = st.symbolic, !.auto = TRUE, !.path = <<"file", n.name>>,
                                                     !.env = Append(rp.st.env, <<>>), !.macros = rp.st.macros, !.depth = rp.st.depth,
                                                     !.evs = Append(rp.st.evs, <<"ExecBegin">>)] IN
                   LET st1 == ExecSeq(st.files[n.name], sub, 0) IN
                   IF st1.err # "" THEN [rp.st EXCEPT !.err = st1.err, !.evs = st1.evs]
                   ELSE [rp.st EXCEPT !.out = @ \o st1.out, !.evs = st1.evs]
    [] n.t = "import" ->
         \* binds an exported macro of another template under a (possibly different) name, in the current scope
         IF ~Has(st.files, n.file) THEN Fail(st, "import: no such template")
         ELSE LET defs == {i \in 1..Len(st.files[n.file]) : st.files[n.file][i].t = "macro" /\ st.files[n.file][i].name = n.name
                                                            /\ st.files[n.file][i].export} IN
              IF defs = {} THEN Fail(st, "import: macro not exported")
              ELSE LET d == st.files[n.file][CHOOSE i \in defs : TRUE] IN
                   Bind([st EXCEPT !.macros = (<<n.as, Len(st.env)>> :> d) @@ @], n.as, MacroV(n.as, Len(st.env)))
    [] OTHER -> Fail(st, "unknown node")

\* a body is executed child by child; st.path identifies the tag occurrence being executed (branch tag b, then the index),
\* which is the key of per-render tag state (cycle position, ifchanged memory)
ExecItems(ns, i, st, base) ==
  IF i > Len(ns) \/ st.err # "" THEN st
  ELSE ExecItems(ns, i + 1, Exec(ns[i], [Ev(st, <<"Gate">>) EXCEPT !.path = Append(base, i)]), base)
ExecSeq(ns, st, b) ==
  LET base == Append(st.path, b) IN
  LET st1 == ExecItems(ns, 1, st, base) IN [st1 EXCEPT !.path = st.path]

\* one render of a program (a tuple of nodes) against a public context
Render(prog, pub) == ExecSeq(prog, InitState(pub), 0)
RenderG(prog, pub, files, globals) == ExecSeq(prog, [InitState(pub) EXCEPT !.files = files, !.globals = globals, !.evs = <<<<"ExecBegin">>>>], 0)
RenderF(prog, pub, files) == RenderG(prog, pub, files, <<>>)
RenderSym(prog, pub, files) == ExecSeq(prog, [InitState(pub) EXCEPT !.files = files, !.symbolic = TRUE, !.evs = <<<<"ExecBegin">>>>], 0)

\* Execute(ctx) on a compiled template of a set with Globals: context keys must be identifiers and must not clash with
\* an exported macro; the template sees ctx over globals
BadKeys == {"bad-key", "sp ace", "", "x.y"}
ExportedMacros(prog) == {prog[i].name : i \in {j \in 1..Len(prog) : prog[j].t = "macro" /\ prog[j].export}}
ExecuteAPI(prog, ctx, globals, files) ==
  LET pub == ctx @@ globals IN
  IF (DOMAIN pub) \cap BadKeys # {} THEN [InitState(pub) EXCEPT !.err = "context key is not an identifier"]
  ELSE IF (DOMAIN pub) \cap ExportedMacros(prog) # {} THEN [InitState(pub) EXCEPT !.err = "context key clashes with macro"]
  ELSE RenderG(prog, pub, files, globals)

----------------------------------------------------------------------------
(* structural properties of the semantics, evaluated on a finished render *)

\* C12: after any render the scope stack is back to the root scope (every Push has its Pop)
ScopesBalanced(st) == Len(st.env) = 1
\* C13: the macro depth counter is back to zero and never exceeded the bound
DepthBalanced(st) == st.depth = 0
\* C02 (on the model): no written piece carries an unescaped context marker unless the program opted out
RECURSIVE RawMarks(_)
RawMarks(v) == CASE v.k \in {"str", "stringer"} -> {i \in 1..Len(v.s) : IsMark(v.s[i])} # {}
                 [] v.k = "w" -> v.n = 0 /\ RawMarks(v.l[1])
                 [] v.k = "markup" -> \E i \in 1..Len(v.l) : RawMarks(v.l[i])
                 [] v.k = "ap" -> RawMarks(v.l[1]) \/ RawMarks(v.l[2])
                 [] v.k = "list" -> \E i \in 1..Len(v.l) : RawMarks(v.l[i])
                 [] OTHER -> FALSE
NoRawMarker(st) == \A i \in 1..Len(st.out) : ~RawMarks(st.out[i])
=============================================================================
