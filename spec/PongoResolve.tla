------------------------------ MODULE PongoResolve ------------------------------
(***************************************************************************)
(* Name resolution (C08): a dotted / subscripted / called name is a cursor  *)
(* walk through the context, one action per step kind:                     *)
(*   Lookup(name)  names set by tags, then the caller's context, then the   *)
(*                 set's globals                                            *)
(*   Name(n)       a.n : method call, else pointer dereference and then     *)
(*                 struct field / map key                                   *)
(*   Idx(i)        a.0 : element of a sequence                              *)
(*   Sub(e)        a[e]: element / key / field selected by a value          *)
(*   Call(args)    f(x, y)                                                  *)
(* After every step a nil / invalid value ends the walk with the empty      *)
(* value; *Value and interface wrappers are removed; a function value is    *)
(* called (with the written arguments, or none).                            *)
(* Outcome: [res |-> "val", v] | [res |-> "empty"] | [res |-> "error"].      *)
(*                                                                         *)
(* Values: the kinds of PongoRender plus                                    *)
(*   struct(l = pairs name -> value; names in lower case are unexported;     *)
(*          every struct has the methods M0() "m0", M1(int) int,            *)
(*          MV() *Value("mv"), ME() (string, error) that fails,             *)
(*          and PM0() "pm0" on the pointer receiver)                        *)
(*   ptr(l = <<target>> | <<>> for nil), arr(l) a Go array, mapi (int keys), *)
(*   func(s = <<signature>>)                                                *)
(***************************************************************************)
EXTENDS PongoRender

Struct(fields) == V("struct", 0, <<>>, fields)
Ptr(x) == V("ptr", 0, <<>>, <<x>>)
NilPtr == V("ptr", 0, <<>>, <<>>)
Arr(items) == V("arr", 0, <<>>, items)
MapI(pairs) == V("mapi", 0, <<>>, pairs)
Func(sig) == V("func", 0, <<sig>>, <<>>)

Val(v) == [res |-> "val", v |-> v]
Empty == [res |-> "empty", v |-> Nil]
Error == [res |-> "error", v |-> Nil]

IsExported(name) == name \in {"F", "G", "N", "P", "Fn"}        \* the catalogue's exported field names
MethodsOfStruct == {"M0", "M1", "MV", "ME"}
MethodsOfPtr == MethodsOfStruct \cup {"PM0"}

FieldOf(st, name) == LET hits == {j \in 1..Len(st.l) : st.l[j].l[1] = S(<<name>>)} IN
                     IF hits = {} THEN Nil ELSE st.l[CHOOSE j \in hits : TRUE].l[2]
KeyOf(m, key) == LET hits == {j \in 1..Len(m.l) : m.l[j].l[1] = key} IN
                 IF hits = {} THEN Nil ELSE m.l[CHOOSE j \in hits : TRUE].l[2]

\* calling a function value with evaluated arguments
CallFunc(sig, args) ==
  CASE sig = "M0" -> IF Len(args) = 0 THEN Val(S(<<"m", "0">>)) ELSE Error
    [] sig = "PM0" -> IF Len(args) = 0 THEN Val(S(<<"p", "m", "0">>)) ELSE Error
    [] sig = "M1" -> IF Len(args) = 1 /\ args[1].k = "int" THEN Val(I(args[1].n + 1)) ELSE Error      \* func(int) int
    [] sig = "MV" -> IF Len(args) = 0 THEN Val(S(<<"m", "v">>)) ELSE Error                            \* returns *Value
    [] sig = "ME" -> Error                                                                             \* returns ("", error)
    [] sig = "sum" -> IF \A i \in 1..Len(args) : args[i].k = "int"                                     \* func(...int) int
                        THEN Val(I(LET RECURSIVE Sm(_) Sm(i) == IF i > Len(args) THEN 0 ELSE args[i].n + Sm(i + 1) IN Sm(1))) ELSE Error
    [] sig = "cat" -> IF Len(args) = 2 /\ args[1].k = "str" /\ args[2].k = "str" THEN Val(S(args[1].s \o args[2].s)) ELSE Error   \* func(string, string) string
    [] sig = "anyv" -> IF Len(args) = 1 THEN Val(S(StrOf(args[1]))) ELSE Error                         \* func(*Value) string
    [] sig = "ctx" -> IF Len(args) = 0 THEN Val(S(<<"c", "x">>)) ELSE Error                            \* func(*ExecutionContext) string: implicit parameter
    [] sig = "ctxv" -> IF \A i \in 1..Len(args) : args[i].k = "int"                                    \* func(*ExecutionContext, ...int) int: implicit parameter, then variadic
                         THEN Val(I(100 + (LET RECURSIVE Sm(_) Sm(i) == IF i > Len(args) THEN 0 ELSE args[i].n + Sm(i + 1) IN Sm(1)))) ELSE Error
    [] sig = "ptrarg" -> IF Len(args) = 1 /\ args[1].k = "ptr" THEN Val(S(IF args[1].l = <<>> THEN <<"n", "i", "l">> ELSE <<"p", "t", "r">>)) ELSE Error   \* func(*T) string: a nil *T is a fine argument
    [] sig = "strer" -> IF Len(args) = 1 /\ args[1].k = "nil" THEN Val(S(<<"n", "i", "l">>)) ELSE Error   \* func(fmt.Stringer) string: takes nil and what implements the interface (nothing else in the catalogue does)
    [] sig = "strerv" -> IF \A i \in 1..Len(args) : args[i].k = "nil" THEN Val(I(Len(args))) ELSE Error       \* func(...fmt.Stringer) int
    [] sig = "nilv" -> IF Len(args) = 0 THEN Empty ELSE Error                                           \* func() *Value returning a nil pointer
    [] sig = "nilres" -> IF Len(args) = 0 THEN Empty ELSE Error                                        \* func() any returning nil
    [] OTHER -> Error

\* a value that has just been reached: nil ends the walk, functions are called
Settle(v, args, called) ==
  IF v.k = "nil" THEN Empty                                          \* nil along the way
  ELSE IF v.k = "func" THEN CallFunc(v.s[1], args)
  ELSE IF called THEN Error                                          \* 'x' is not a function
  ELSE IF v.k = "ptr" /\ v.l = <<>> THEN Empty                        \* a nil pointer is nil as well
  ELSE Val(v)

\* one step from value v; args/called: a call written directly after this step
StepName(v, name, args, called) ==
  \* methods first (on the value as it is: pointer receivers only on pointers)
  \* (n = 1 marks a struct type without methods)
  IF (v.k = "struct" /\ v.n = 0 /\ name \in MethodsOfStruct) \/ (v.k = "ptr" /\ v.l # <<>> /\ v.l[1].k = "struct" /\ v.l[1].n = 0 /\ name \in MethodsOfPtr)
    THEN CallFunc(name, args)
  ELSE LET w == IF v.k = "ptr" THEN (IF v.l = <<>> THEN Nil ELSE v.l[1]) ELSE v IN
       IF w.k = "nil" THEN Empty
       ELSE CASE w.k = "struct" -> IF IsExported(name) THEN Settle(FieldOf(w, name), args, called) ELSE Empty
              [] w.k = "map" -> Settle(KeyOf(w, S(<<name>>)), args, called)
              [] w.k = "mapi" -> Empty               \* a name is not a key of an int-keyed map
              [] OTHER -> Error                     \* no fields or keys on sequences and scalars

SeqItems(w) == IF w.k \in {"list", "arr"} THEN w.l ELSE <<>>
StepIdx(v, i, args, called) ==
  LET w == IF v.k = "ptr" THEN (IF v.l = <<>> THEN Nil ELSE v.l[1]) ELSE v IN
  IF w.k = "nil" THEN Empty
  ELSE IF w.k \in {"list", "arr"} THEN (IF i >= 0 /\ i < Len(w.l) THEN Settle(w.l[i + 1], args, called) ELSE Empty)
  ELSE Error

StepSub(v, e, args, called) ==
  LET w == IF v.k = "ptr" THEN (IF v.l = <<>> THEN Nil ELSE v.l[1]) ELSE v IN
  IF w.k = "nil" THEN Empty
  ELSE CASE w.k \in {"list", "arr"} ->      \* (generated subscripts of sequences are integers)
              IF e.k = "int" /\ e.n >= 0 /\ e.n < Len(w.l) THEN Settle(w.l[e.n + 1], args, called) ELSE Empty
         [] w.k = "struct" -> IF e.k = "str" /\ Len(e.s) = 1 /\ IsExported(e.s[1]) THEN Settle(FieldOf(w, e.s[1]), args, called) ELSE Empty
         [] w.k = "map" -> IF e.k = "str" THEN Settle(KeyOf(w, e), args, called) ELSE Empty
         [] w.k = "mapi" -> IF e.k = "int" THEN Settle(KeyOf(w, e), args, called) ELSE Empty
         [] OTHER -> Error

\* steps: [t |-> "name", s] | [t |-> "idx", n] | [t |-> "sub", e] | [t |-> "subp", p] ; each may carry call arguments: call |-> TRUE, args
\* "subp": the subscript is itself a name  a[b.c(1)]  - p = [val, rootArgs, rootCall, steps] with val the value of its first part.
\* It is resolved first: if that is an error the whole name is an error (whatever kind of value is being subscripted); the empty
\* value subscripts like nil.
RECURSIVE Walk(_, _, _)
Walk(v, steps, i) ==
  IF i > Len(steps) THEN Val(v)
  ELSE LET st == steps[i] IN
       LET r == CASE st.t = "name" -> StepName(v, st.s, st.args, st.call)
                  [] st.t = "idx" -> StepIdx(v, st.n, st.args, st.call)
                  [] st.t = "sub" -> StepSub(v, st.e, st.args, st.call)
                  [] st.t = "subp" ->
                       LET r0 == Settle(st.p.val, st.p.rootArgs, st.p.rootCall) IN
                       LET inner == IF r0.res # "val" THEN r0 ELSE Walk(r0.v, st.p.steps, 1) IN
                       IF inner.res = "error" THEN Error
                       ELSE StepSub(v, IF inner.res = "empty" THEN Nil ELSE inner.v, st.args, st.call)
       IN IF r.res # "val" THEN r ELSE Walk(r.v, steps, i + 1)

\* Lookup: tag-set names shadow the caller's context, which shadows the globals
Lookup3(private, public, globals, name) ==
  IF name \in DOMAIN private THEN private[name] ELSE IF name \in DOMAIN public THEN public[name]
  ELSE IF name \in DOMAIN globals THEN globals[name] ELSE Nil

Resolve(root, rootArgs, rootCall, steps) ==
  LET r0 == Settle(root, rootArgs, rootCall) IN
  IF r0.res # "val" THEN r0 ELSE Walk(r0.v, steps, 1)

\* the rule set is total and deterministic: every (value, step) has exactly one outcome
NeverStuck(root, steps) == Resolve(root, <<>>, FALSE, steps).res \in {"val", "empty", "error"}
=============================================================================
