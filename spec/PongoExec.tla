------------------------------- MODULE PongoExec -------------------------------
(***************************************************************************)
(* Executions of one compiled template (C04 histories, C05 threads, C14     *)
(* writer variants and fault injection).  Small-step.                       *)
(*                                                                         *)
(* A compiled template is abstracted to the sequence of chunks its nodes    *)
(* write, in order; node k may fail.  `compiled` is the abstract identity   *)
(* of everything reachable from the template (the implementation's          *)
(* VerifTemplateDigest); no action changes it - that is C04/C05's claim,    *)
(* checked as the action property CompiledImmutable.                        *)
(*                                                                         *)
(* A thread executes through one of the four entry points:                  *)
(*   "Execute" | "ExecuteBytes" : buffer, result returned                   *)
(*   "ExecuteWriter"            : buffer, then one WriteTo on success        *)
(*   "Unbuffered"               : every chunk goes to the caller's writer    *)
(* An include node nests a buffered execution of another chunk list whose   *)
(* output reaches the enclosing target in one piece, or not at all.         *)
(***************************************************************************)
EXTENDS Integers, Sequences, FiniteSets, TLC

CONSTANTS Threads,
          NChunks,        \* number of top-level nodes
          InclAt,         \* index of the node that is an include (0 = none); it has two inner chunks
          Contexts,       \* abstract contexts a thread may execute with
          MaxWFail,       \* the caller's writer may start failing at its 1st..MaxWFail-th Write (0: healthy writers only)
          MaxRuns         \* executions per thread (histories e1..en on one compiled template)

Entries == {"Execute", "ExecuteBytes", "ExecuteWriter", "Unbuffered"}

VARIABLES
  compiled,   \* abstract digest of the compiled template
  pc,         \* [Threads -> 0..]  0 = not started; i = about to run node i; NChunks+1 = flush; NChunks+2 = done
  sub,        \* [Threads -> 0..3] progress inside the include node (0 = not inside)
  entry,      \* [Threads -> Entries]
  ctx,        \* [Threads -> Contexts]
  failAt,     \* [Threads -> 0..NChunks+1]  node that fails for this thread's context (0 = none); InclAt with failIn
  failIn,     \* [Threads -> 0..2]  inner chunk of the include that fails (0 = none)
  wfail,      \* [Threads -> Nat]   the caller's writer fails from its wfail-th Write call on (0 = never)
  wkind,      \* [Threads -> {"refuse", "full"}]  how it fails: takes nothing and reports an error, or takes everything it is
              \*                    given and reports an error all the same (io.Writer allows both)
  buf,        \* [Threads -> Seq]   the execution's buffer (buffered variants)
  ibuf,       \* [Threads -> Seq]   the nested buffer of the include
  sink,       \* [Threads -> Seq]   what the caller's writer has accepted
  nwrites,    \* [Threads -> Nat]   Write calls on the caller's writer so far
  res,        \* [Threads -> [out, err]]  result handed back ("" err = success)
  runs,       \* [Threads -> Nat] executions started by the thread
  hist        \* sequence of finished executions [t, entry, ctx, out, err, sink]

vars == <<compiled, pc, sub, entry, ctx, failAt, failIn, wfail, wkind, buf, ibuf, sink, nwrites, res, runs, hist>>

Chunk(i) == <<"c", i>>
IChunk(j) == <<"i", j>>
NoRes == [out |-> <<>>, err |-> ""]
\* what a fault-free execution produces
FullOutput == LET RECURSIVE F(_)
                  F(i) == IF i > NChunks THEN <<>>
                          ELSE (IF i = InclAt THEN <<IChunk(1), IChunk(2)>> ELSE <<Chunk(i)>>) \o F(i + 1)
              IN F(1)
IsPrefix(a, b) == Len(a) <= Len(b) /\ SubSeq(b, 1, Len(a)) = a

Init ==
  /\ compiled = "digest0"
  /\ pc = [t \in Threads |-> 0] /\ sub = [t \in Threads |-> 0]
  /\ entry \in [Threads -> Entries]
  /\ ctx \in [Threads -> Contexts]
  /\ failAt \in [Threads -> 0..NChunks]
  /\ failIn \in [Threads -> 0..2]
  /\ \A t \in Threads : (failIn[t] # 0) <=> (failAt[t] = InclAt /\ InclAt # 0 /\ failIn[t] \in 1..2)
  /\ wfail \in [Threads -> 0..MaxWFail]
  /\ wkind \in [Threads -> {"refuse", "full"}]
  /\ \A t \in Threads : wfail[t] = 0 => wkind[t] = "refuse"
  /\ buf = [t \in Threads |-> <<>>] /\ ibuf = [t \in Threads |-> <<>>]
  /\ sink = [t \in Threads |-> <<>>] /\ nwrites = [t \in Threads |-> 0]
  /\ res = [t \in Threads |-> NoRes]
  /\ runs = [t \in Threads |-> 1]
  /\ hist = <<>>

Buffered(t) == entry[t] # "Unbuffered"

\* a Write call of the execution on the caller's writer (unbuffered chunk, or the final WriteTo)
\* returns <<accepted, ok>>
WriterAccepts(t) == wfail[t] = 0 \/ nwrites[t] + 1 < wfail[t]          \* the call reports no error
WriterTakes(t) == WriterAccepts(t) \/ wkind[t] = "full"                 \* the data arrives

Finish(t, out, err) ==
  /\ res' = [res EXCEPT ![t] = [out |-> out, err |-> err]]
  /\ pc' = [pc EXCEPT ![t] = NChunks + 2]
  /\ hist' = Append(hist, [t |-> t, entry |-> entry[t], ctx |-> ctx[t], out |-> out, err |-> err,
                           sink |-> sink'[t], failAt |-> failAt[t], failIn |-> failIn[t], wfail |-> wfail[t], wkind |-> wkind[t]])

Start(t) ==
  /\ pc[t] = 0
  /\ pc' = [pc EXCEPT ![t] = 1]
  /\ UNCHANGED <<compiled, sub, entry, ctx, failAt, failIn, wfail, wkind, buf, ibuf, sink, nwrites, res, runs, hist>>

\* deliver data to the execution's target: the buffer, or the caller's writer (whose errors the unbuffered variant ignores)
Deliver(t, data) ==
  IF Buffered(t)
    THEN /\ buf' = [buf EXCEPT ![t] = @ \o data]
         /\ UNCHANGED <<sink, nwrites>>
    ELSE /\ nwrites' = [nwrites EXCEPT ![t] = @ + 1]
         /\ sink' = IF WriterTakes(t) THEN [sink EXCEPT ![t] = @ \o data] ELSE sink
         /\ UNCHANGED buf

\* an ordinary node: writes its chunk, or fails
Node(t) ==
  /\ pc[t] \in 1..NChunks /\ pc[t] # InclAt
  /\ IF failAt[t] = pc[t]
       THEN /\ UNCHANGED <<buf, sink, nwrites>>
            /\ Finish(t, <<>>, "exec")
       ELSE /\ Deliver(t, <<Chunk(pc[t])>>)
            /\ pc' = [pc EXCEPT ![t] = @ + 1]
            /\ UNCHANGED <<res, hist>>
  /\ UNCHANGED <<compiled, sub, entry, ctx, failAt, failIn, wfail, wkind, ibuf, runs>>

\* the include node: inner chunk 1, inner chunk 2 into the nested buffer, then hand-over in one piece
InclStep(t) ==
  /\ pc[t] = InclAt /\ InclAt # 0
  /\ IF sub[t] < 2
       THEN IF failIn[t] = sub[t] + 1
              THEN /\ UNCHANGED <<buf, sink, nwrites, ibuf, sub>>
                   /\ Finish(t, <<>>, "exec")
              ELSE /\ ibuf' = [ibuf EXCEPT ![t] = Append(@, IChunk(sub[t] + 1))]
                   /\ sub' = [sub EXCEPT ![t] = @ + 1]
                   /\ UNCHANGED <<buf, sink, nwrites, pc, res, hist>>
       ELSE \* hand-over in one piece. The nested execution is an ExecuteWriter into the enclosing target, so - unlike an
            \* ordinary node - it notices a refusing writer: the unbuffered execution then fails with the writer's error.
            IF ~Buffered(t) /\ ~WriterAccepts(t)
              THEN /\ nwrites' = [nwrites EXCEPT ![t] = @ + 1]
                   /\ sink' = IF WriterTakes(t) THEN [sink EXCEPT ![t] = @ \o ibuf[t]] ELSE sink
                   /\ UNCHANGED <<buf, ibuf, sub>>
                   /\ Finish(t, <<>>, "writer")
              ELSE /\ Deliver(t, ibuf[t])
                   /\ ibuf' = [ibuf EXCEPT ![t] = <<>>]
                   /\ sub' = [sub EXCEPT ![t] = 0]
                   /\ pc' = [pc EXCEPT ![t] = @ + 1]
                   /\ UNCHANGED <<res, hist>>
  /\ UNCHANGED <<compiled, entry, ctx, failAt, failIn, wfail, wkind, runs>>

\* end of the node list: buffered variants hand their buffer over
Flush(t) ==
  /\ pc[t] = NChunks + 1
  /\ CASE entry[t] \in {"Execute", "ExecuteBytes"} ->
            /\ UNCHANGED <<sink, nwrites>>
            /\ Finish(t, buf[t], "")
       [] entry[t] = "ExecuteWriter" ->
            \* one WriteTo: the writer gets everything or reports its error, which is returned
            /\ nwrites' = [nwrites EXCEPT ![t] = @ + 1]
            /\ IF WriterAccepts(t)
                 THEN /\ sink' = [sink EXCEPT ![t] = @ \o buf[t]]
                      /\ Finish(t, <<>>, "")
                 ELSE /\ sink' = IF WriterTakes(t) THEN [sink EXCEPT ![t] = @ \o buf[t]] ELSE sink
                      /\ Finish(t, <<>>, "writer")            \* the writer's error is handed back, whatever it says it took
       [] entry[t] = "Unbuffered" ->
            /\ UNCHANGED <<sink, nwrites>>
            /\ Finish(t, <<>>, "")
  /\ UNCHANGED <<compiled, sub, entry, ctx, failAt, failIn, wfail, wkind, buf, ibuf, runs>>

\* the same compiled template is executed again, with any entry point, context and faults
Restart(t) ==
  /\ pc[t] = NChunks + 2 /\ runs[t] < MaxRuns
  /\ runs' = [runs EXCEPT ![t] = @ + 1]
  /\ pc' = [pc EXCEPT ![t] = 0] /\ sub' = [sub EXCEPT ![t] = 0]
  /\ \E e \in Entries, c \in Contexts, fa \in 0..NChunks, fi \in 0..2, wf \in 0..MaxWFail, wk \in {"refuse", "full"} :
        /\ (fi # 0) <=> (fa = InclAt /\ InclAt # 0 /\ fi \in 1..2)
        /\ (wf = 0 => wk = "refuse") /\ wkind' = [wkind EXCEPT ![t] = wk]
        /\ entry' = [entry EXCEPT ![t] = e] /\ ctx' = [ctx EXCEPT ![t] = c]
        /\ failAt' = [failAt EXCEPT ![t] = fa] /\ failIn' = [failIn EXCEPT ![t] = fi] /\ wfail' = [wfail EXCEPT ![t] = wf]
  /\ buf' = [buf EXCEPT ![t] = <<>>] /\ ibuf' = [ibuf EXCEPT ![t] = <<>>]
  /\ sink' = [sink EXCEPT ![t] = <<>>] /\ nwrites' = [nwrites EXCEPT ![t] = 0]
  /\ res' = [res EXCEPT ![t] = NoRes]
  /\ UNCHANGED <<compiled, hist>>

Next == \E t \in Threads : Start(t) \/ Node(t) \/ InclStep(t) \/ Flush(t) \/ Restart(t)
Spec == Init /\ [][Next]_vars
Fair == \A t \in Threads : WF_vars(Start(t) \/ Node(t) \/ InclStep(t) \/ Flush(t) \/ Restart(t))

Done(t) == pc[t] = NChunks + 2
AllDone == \A t \in Threads : Done(t) /\ runs[t] = MaxRuns

----------------------------------------------------------------------------
(* Properties *)

\* C04 / C05: no step of any execution changes the compiled template
CompiledImmutable == [][compiled' = compiled]_vars

\* what the caller sees of a finished execution: the returned text, or what its writer accepted
Seen(h) == IF h.entry \in {"Execute", "ExecuteBytes"} THEN h.out ELSE h.sink

\* C05 Isolation / C04 Deterministic: an execution's result is a function of its own inputs only, whatever the
\* other threads do and whatever ran before
Isolation ==
  \A i, j \in 1..Len(hist) :
     (hist[i].entry = hist[j].entry /\ hist[i].ctx = hist[j].ctx /\ hist[i].failAt = hist[j].failAt
      /\ hist[i].failIn = hist[j].failIn /\ hist[i].wfail = hist[j].wfail /\ hist[i].wkind = hist[j].wkind)
        => (hist[i].err = hist[j].err /\ Seen(hist[i]) = Seen(hist[j]))

\* C14 Agree: with a healthy writer the four entry points yield the same bytes and fail in the same cases
Agree ==
  \A i, j \in 1..Len(hist) :
     (hist[i].failAt = hist[j].failAt /\ hist[i].failIn = hist[j].failIn /\ hist[i].wfail = 0 /\ hist[j].wfail = 0)
        => /\ (hist[i].err = "") <=> (hist[j].err = "")
           /\ (hist[i].err = "" => Seen(hist[i]) = Seen(hist[j]))
SuccessIsFull == \A i \in 1..Len(hist) : (hist[i].err = "" /\ hist[i].wfail = 0) => Seen(hist[i]) = FullOutput

\* C14 AllOrNothing: after a failed ExecuteWriter the caller's writer has received nothing
AllOrNothing == \A i \in 1..Len(hist) : (hist[i].entry = "ExecuteWriter" /\ hist[i].err = "exec") => hist[i].sink = <<>>
\* C14 PrefixOnly: the unbuffered variant may have written something, and then only a leading part of the full output
PrefixOnly == \A t \in Threads : IsPrefix(sink[t], FullOutput)
\* C14 WriterErrorReturned
WriterErrorReturned ==
  \A i \in 1..Len(hist) :
     (hist[i].entry = "ExecuteWriter" /\ hist[i].failAt = 0 /\ hist[i].wfail = 1) => hist[i].err = "writer"      \* (either kind of failing writer)
\* an include is all or nothing inside its execution too
IncludeAtomic ==
  \A t \in Threads : \A i \in 1..Len(sink[t]) :
     (sink[t][i] = IChunk(1)) => (i < Len(sink[t]) /\ sink[t][i + 1] = IChunk(2))

Termination == <>AllDone
=============================================================================
