------------------------------- MODULE PongoSet -------------------------------
(***************************************************************************)
(* TemplateSet of pongo2: sandbox bans + frozen flag (C03) and the template *)
(* cache with its mutex and the Debug switch (C20, C05).                    *)
(*                                                                         *)
(* Small-step: one action per critical section / linearization point of    *)
(* template_sets.go.                                                       *)
(*   FromCache  = FcBegin ; (FcBypass | FcLock ; FcCrit ; FcUnlock)        *)
(*   CleanCache = CcBegin ; CcLock ; CcCrit ; CcUnlock                     *)
(*   BanTag/BanFilter/Compile are single steps (no lock in the code: the    *)
(*   API is documented as set-up time only).                               *)
(* Environment steps: SetDebug, ChangeFile.                                *)
(*                                                                         *)
(* History (ghost) variables - epoch, loads, hist - exist only to state    *)
(* the properties; VIEW in the MC configs hides hist.                      *)
(***************************************************************************)
EXTENDS Integers, Sequences, FiniteSets, TLC

CONSTANTS Threads,      \* e.g. {t1, t2}
          Sets,         \* e.g. {s1, s2}
          Names,        \* template names, e.g. {"a", "b"}
          MaxVer,       \* file versions 1..MaxVer
          MaxOps,       \* operations issued per thread
          MaxEnv,       \* environment steps (SetDebug/ChangeFile) in a behaviour
          Vocab         \* tag/filter names that may be banned / used (C03)

None == "none"
Absent == 0
Broken == 0 - 1         \* the file exists, but reading it fails after part of it has arrived: a failed load like any other

VARIABLES
  \* ---- implementation state
  cache,     \* [Sets -> [Names -> Nat]]   0 = no entry, otherwise template id
  debug,     \* [Sets -> BOOLEAN]
  glob,      \* [Sets -> 0..1]   the value of the set's global g (Globals are read when a template is executed)
  opt,       \* [Sets -> BOOLEAN] the set's TrimBlocks option (a template copies the options when it is created)
  mutex,     \* [Sets -> Threads \cup {None}]
  file,      \* [Names -> 0..MaxVer]       0 = absent, shared file system
  bannedT,   \* [Sets -> SUBSET Vocab]
  bannedF,   \* [Sets -> SUBSET Vocab]
  frozen,    \* [Sets -> BOOLEAN]
  pc,        \* [Threads -> {"idle","fcwait","fccrit","fcunlock","ccwait","cccrit","ccunlock"}]
  cur,       \* [Threads -> current operation record]
  \* ---- ghost state
  nextId,    \* next fresh template id
  tplVer,    \* id -> file version it was compiled from (function over 1..nextId-1)
  tplOpt,    \* id -> the TrimBlocks option the template was created with
  tplEpoch,  \* id -> epoch of (set,name) in which it was loaded through the cache; 0 = bypass
  epoch,     \* [Sets -> [Names -> Nat]] number of cleans of that entry so far
  loads,     \* [Sets -> [Names -> Nat]] successful cache loads in the current epoch
  fetches,   \* [Sets -> [Names -> Nat]] loader reads on behalf of (set,name), total
  nops,      \* [Threads -> Nat] operations started
  nenv,      \* environment steps so far
  hist,      \* sequence of completed operations / environment steps, in linearization order
  sched      \* sequence of all steps taken (action name, thread, arguments): the schedule to replay

implVars  == <<cache, debug, glob, opt, mutex, file, bannedT, bannedF, frozen, pc, cur>>
ghostVars == <<nextId, tplVer, tplOpt, tplEpoch, epoch, loads, fetches, nops, nenv>>
vars      == <<implVars, ghostVars, hist, sched>>
viewNoHist == <<implVars, ghostVars>>
viewNoSched == <<implVars, ghostVars, hist>>

NoOp == [op |-> "none", s |-> None, n |-> None, res |-> 0, ep |-> 0, all |-> FALSE, pre |-> FALSE]

TypeOK ==
  /\ cache \in [Sets -> [Names -> Nat]]
  /\ debug \in [Sets -> BOOLEAN]
  /\ mutex \in [Sets -> Threads \cup {None}]
  /\ file \in [Names -> Broken..MaxVer]
  /\ bannedT \in [Sets -> SUBSET Vocab]
  /\ bannedF \in [Sets -> SUBSET Vocab]
  /\ frozen \in [Sets -> BOOLEAN]
  /\ pc \in [Threads -> {"idle","fcwait","fccrit","fcunlock","ccwait","cccrit","ccunlock"}]

Init ==
  /\ cache = [s \in Sets |-> [n \in Names |-> 0]]
  /\ debug = [s \in Sets |-> FALSE]
  /\ glob = [s \in Sets |-> 0] /\ opt = [s \in Sets |-> FALSE]
  /\ mutex = [s \in Sets |-> None]
  /\ file \in [Names -> 0..1]
  /\ bannedT = [s \in Sets |-> {}]
  /\ bannedF = [s \in Sets |-> {}]
  /\ frozen = [s \in Sets |-> FALSE]
  /\ pc = [t \in Threads |-> "idle"]
  /\ cur = [t \in Threads |-> NoOp]
  /\ nextId = 1
  /\ tplVer = <<>> /\ tplOpt = <<>>
  /\ tplEpoch = <<>>
  /\ epoch = [s \in Sets |-> [n \in Names |-> 1]]
  /\ loads = [s \in Sets |-> [n \in Names |-> 0]]
  /\ fetches = [s \in Sets |-> [n \in Names |-> 0]]
  /\ nops = [t \in Threads |-> 0]
  /\ nenv = 0
  /\ hist = <<>>
  /\ sched = <<[a |-> "Init", t |-> None, s |-> None, n |-> file, x |-> 0]>>

Sched(a, t, s, n, x) == sched' = Append(sched, [a |-> a, t |-> t, s |-> s, n |-> n, x |-> x])
Done(t, rec) == hist' = Append(hist, rec @@ [t |-> t])

\* Start over with fresh sets and the given file system (used to chain many recorded traces).
Reset(f) ==
  /\ cache' = [s \in Sets |-> [n \in Names |-> 0]]
  /\ debug' = [s \in Sets |-> FALSE]
  /\ glob' = [s \in Sets |-> 0] /\ opt' = [s \in Sets |-> FALSE]
  /\ mutex' = [s \in Sets |-> None]
  /\ file' = f
  /\ bannedT' = [s \in Sets |-> {}]
  /\ bannedF' = [s \in Sets |-> {}]
  /\ frozen' = [s \in Sets |-> FALSE]
  /\ pc' = [t \in Threads |-> "idle"]
  /\ cur' = [t \in Threads |-> NoOp]
  /\ nextId' = 1
  /\ tplVer' = <<>> /\ tplOpt' = <<>>
  /\ tplEpoch' = <<>>
  /\ epoch' = [s \in Sets |-> [n \in Names |-> 1]]
  /\ loads' = [s \in Sets |-> [n \in Names |-> 0]]
  /\ fetches' = [s \in Sets |-> [n \in Names |-> 0]]
  /\ nops' = [t \in Threads |-> 0]
  /\ nenv' = 0
  /\ hist' = <<>>
  /\ sched' = <<>>

----------------------------------------------------------------------------
(* FromCache *)

\* `if set.Debug { return set.FromFile(name) }` - reads the flag, and in debug mode loads at once
\* (no lock, nothing cached, every call fetches).
FcBegin(t, s, n) ==
  /\ Sched("FcBegin", t, s, n, IF debug[s] THEN 1 ELSE 0)
  /\ pc[t] = "idle" /\ nops[t] < MaxOps
  /\ nops' = [nops EXCEPT ![t] = @ + 1]
  /\ frozen' = [frozen EXCEPT ![s] = IF debug[s] THEN TRUE ELSE @]
  /\ IF debug[s]
       THEN /\ fetches' = [fetches EXCEPT ![s][n] = @ + 1]
            /\ IF file[n] <= Absent
                 THEN /\ Done(t, [op |-> "FromCache", s |-> s, n |-> n, res |-> 0, how |-> "bypass", ver |-> 0])
                      /\ UNCHANGED <<nextId, tplVer, tplOpt, tplEpoch>>
                 ELSE /\ Done(t, [op |-> "FromCache", s |-> s, n |-> n, res |-> nextId, how |-> "bypass", ver |-> file[n], g |-> glob[s], o |-> opt[s]])
                      /\ nextId' = nextId + 1
                      /\ tplVer' = Append(tplVer, file[n])
                      /\ tplEpoch' = Append(tplEpoch, 0)
                      /\ tplOpt' = Append(tplOpt, opt[s])
            /\ UNCHANGED <<pc, cur>>
       ELSE /\ pc' = [pc EXCEPT ![t] = "fcwait"]
            /\ cur' = [cur EXCEPT ![t] = [NoOp EXCEPT !.op = "FromCache", !.s = s, !.n = n]]
            /\ UNCHANGED <<fetches, nextId, tplVer, tplOpt, tplEpoch, hist>>
  /\ UNCHANGED <<cache, debug, glob, opt, mutex, file, bannedT, bannedF, epoch, loads, nenv>>

FcLock(t) ==
  /\ Sched("FcLock", t, cur[t].s, cur[t].n, 0)
  /\ pc[t] = "fcwait"
  /\ mutex[cur[t].s] = None
  /\ mutex' = [mutex EXCEPT ![cur[t].s] = t]
  /\ pc' = [pc EXCEPT ![t] = "fccrit"]
  /\ UNCHANGED <<cache, debug, glob, opt, file, bannedT, bannedF, frozen, cur, ghostVars, hist>>

\* lookup; on a miss load+compile (may fail) and store.  One step: the whole region runs under the mutex.
FcCrit(t) ==
  LET s == cur[t].s  n == cur[t].n IN
  /\ Sched("FcCrit", t, cur[t].s, cur[t].n, 0)
  /\ pc[t] = "fccrit"
  /\ pc' = [pc EXCEPT ![t] = "fcunlock"]
  /\ IF cache[s][n] # 0
       THEN \* hit
            /\ cur' = [cur EXCEPT ![t].res = cache[s][n], ![t].ep = epoch[s][n]]
            /\ UNCHANGED <<cache, nextId, tplVer, tplOpt, tplEpoch, loads, fetches, frozen>>
       ELSE \* miss: FromFile (freezes the set, reads through the loaders)
            /\ fetches' = [fetches EXCEPT ![s][n] = @ + 1]
            /\ frozen' = [frozen EXCEPT ![s] = TRUE]
            /\ IF file[n] <= Absent
                 THEN /\ cur' = [cur EXCEPT ![t].res = 0, ![t].ep = epoch[s][n]]
                      /\ UNCHANGED <<cache, nextId, tplVer, tplOpt, tplEpoch, loads>>
                 ELSE /\ cache' = [cache EXCEPT ![s][n] = nextId]
                      /\ cur' = [cur EXCEPT ![t].res = nextId, ![t].ep = epoch[s][n]]
                      /\ nextId' = nextId + 1
                      /\ tplVer' = Append(tplVer, file[n])
                      /\ tplEpoch' = Append(tplEpoch, epoch[s][n])
                      /\ tplOpt' = Append(tplOpt, opt[s])
                      /\ loads' = [loads EXCEPT ![s][n] = @ + 1]
  /\ UNCHANGED <<debug, glob, opt, mutex, file, bannedT, bannedF, epoch, nops, nenv, hist>>

FcUnlock(t) ==
  /\ Sched("FcUnlock", t, cur[t].s, cur[t].n, cur[t].res)
  /\ pc[t] = "fcunlock"
  /\ mutex' = [mutex EXCEPT ![cur[t].s] = None]
  /\ pc' = [pc EXCEPT ![t] = "idle"]
  /\ Done(t, [op |-> "FromCache", s |-> cur[t].s, n |-> cur[t].n, res |-> cur[t].res, how |-> "cache",
              ver |-> IF cur[t].res = 0 THEN 0 ELSE tplVer[cur[t].res],
              \* executing the template right away shows the set's global as it is now and the option it was created with
              g |-> glob[cur[t].s], o |-> IF cur[t].res = 0 THEN FALSE ELSE tplOpt[cur[t].res]])
  /\ cur' = [cur EXCEPT ![t] = NoOp]
  /\ UNCHANGED <<cache, debug, glob, opt, file, bannedT, bannedF, frozen, ghostVars>>

----------------------------------------------------------------------------
(* CleanCache() / CleanCache(n) / CleanCache(x, n): several names in one call, the first of which the cache has never held *)

CcFlag(all, pre) == IF all THEN 1 ELSE IF pre THEN 2 ELSE 0
CcBegin(t, s, n, all, pre) ==
  /\ Sched("CcBegin", t, s, n, CcFlag(all, pre))
  /\ pc[t] = "idle" /\ nops[t] < MaxOps
  /\ nops' = [nops EXCEPT ![t] = @ + 1]
  /\ pc' = [pc EXCEPT ![t] = "ccwait"]
  /\ cur' = [cur EXCEPT ![t] = [NoOp EXCEPT !.op = "CleanCache", !.s = s, !.n = n, !.all = all, !.pre = pre]]
  /\ UNCHANGED <<cache, debug, glob, opt, mutex, file, bannedT, bannedF, frozen,
                 nextId, tplVer, tplOpt, tplEpoch, epoch, loads, fetches, nenv, hist>>

CcLock(t) ==
  /\ Sched("CcLock", t, cur[t].s, cur[t].n, 0)
  /\ pc[t] = "ccwait"
  /\ mutex[cur[t].s] = None
  /\ mutex' = [mutex EXCEPT ![cur[t].s] = t]
  /\ pc' = [pc EXCEPT ![t] = "cccrit"]
  /\ UNCHANGED <<cache, debug, glob, opt, file, bannedT, bannedF, frozen, cur, ghostVars, hist>>

CcCrit(t) ==
  LET s == cur[t].s IN
  /\ Sched("CcCrit", t, cur[t].s, cur[t].n, CcFlag(cur[t].all, cur[t].pre))
  /\ pc[t] = "cccrit"
  /\ pc' = [pc EXCEPT ![t] = "ccunlock"]
  /\ LET hit(n) == cur[t].all \/ n = cur[t].n IN           \* (every name of the call is dropped, whatever else the call names)
     /\ cache' = [cache EXCEPT ![s] = [n \in Names |-> IF hit(n) THEN 0 ELSE cache[s][n]]]
     /\ epoch' = [epoch EXCEPT ![s] = [n \in Names |-> IF hit(n) THEN epoch[s][n] + 1 ELSE epoch[s][n]]]
     /\ loads' = [loads EXCEPT ![s] = [n \in Names |-> IF hit(n) THEN 0 ELSE loads[s][n]]]
  /\ UNCHANGED <<debug, glob, opt, mutex, file, bannedT, bannedF, frozen, cur,
                 nextId, tplVer, tplOpt, tplEpoch, fetches, nops, nenv, hist>>

CcUnlock(t) ==
  /\ Sched("CcUnlock", t, cur[t].s, cur[t].n, 0)
  /\ pc[t] = "ccunlock"
  /\ mutex' = [mutex EXCEPT ![cur[t].s] = None]
  /\ pc' = [pc EXCEPT ![t] = "idle"]
  /\ Done(t, [op |-> "CleanCache", s |-> cur[t].s, n |-> cur[t].n, res |-> 0,
              how |-> IF cur[t].all THEN "all" ELSE IF cur[t].pre THEN "pre" ELSE "one", ver |-> 0])
  /\ cur' = [cur EXCEPT ![t] = NoOp]
  /\ UNCHANGED <<cache, debug, glob, opt, file, bannedT, bannedF, frozen, ghostVars>>

----------------------------------------------------------------------------
(* Environment *)

SetDebug(s, b) ==
  /\ Sched("SetDebug", None, s, None, IF b THEN 1 ELSE 0)
  /\ nenv < MaxEnv /\ debug[s] # b
  /\ nenv' = nenv + 1
  /\ debug' = [debug EXCEPT ![s] = b]
  /\ hist' = Append(hist, [op |-> "SetDebug", s |-> s, n |-> None, res |-> IF b THEN 1 ELSE 0,
                           how |-> "env", ver |-> 0, t |-> None])
  /\ UNCHANGED <<cache, glob, opt, mutex, file, bannedT, bannedF, frozen, pc, cur,
                 nextId, tplVer, tplOpt, tplEpoch, epoch, loads, fetches, nops>>

\* the set's global g and its TrimBlocks option: plain fields the application writes (before it shares the set)
SetGlobal(s, v) ==
  /\ Sched("SetGlobal", None, s, None, v)
  /\ nenv < MaxEnv /\ glob[s] # v
  /\ nenv' = nenv + 1
  /\ glob' = [glob EXCEPT ![s] = v]
  /\ hist' = Append(hist, [op |-> "SetGlobal", s |-> s, n |-> None, res |-> v, how |-> "env", ver |-> 0, t |-> None])
  /\ UNCHANGED <<cache, debug, opt, mutex, file, bannedT, bannedF, frozen, pc, cur,
                 nextId, tplVer, tplOpt, tplEpoch, epoch, loads, fetches, nops>>
SetOpt(s, b) ==
  /\ Sched("SetOpt", None, s, None, IF b THEN 1 ELSE 0)
  /\ nenv < MaxEnv /\ opt[s] # b
  /\ nenv' = nenv + 1
  /\ opt' = [opt EXCEPT ![s] = b]
  /\ hist' = Append(hist, [op |-> "SetOpt", s |-> s, n |-> None, res |-> IF b THEN 1 ELSE 0, how |-> "env", ver |-> 0, t |-> None])
  /\ UNCHANGED <<cache, debug, glob, mutex, file, bannedT, bannedF, frozen, pc, cur,
                 nextId, tplVer, tplOpt, tplEpoch, epoch, loads, fetches, nops>>

ChangeFile(n, v) ==
  /\ Sched("ChangeFile", None, None, n, v)
  /\ nenv < MaxEnv /\ file[n] # v
  /\ nenv' = nenv + 1
  /\ file' = [file EXCEPT ![n] = v]
  /\ hist' = Append(hist, [op |-> "ChangeFile", s |-> None, n |-> n, res |-> v,
                           how |-> "env", ver |-> v, t |-> None])
  /\ UNCHANGED <<cache, debug, glob, opt, mutex, bannedT, bannedF, frozen, pc, cur,
                 nextId, tplVer, tplOpt, tplEpoch, epoch, loads, fetches, nops>>

----------------------------------------------------------------------------
(* Sandbox (C03): bans and compilation. `uses` is the set of tag names and *)
(* filter names reachable, by any syntactic or file route, from the source *)
(* being compiled.                                                         *)

BanRefused(s, kind, x) ==
  \/ x \notin Vocab                       \* unknown name: modelled by the harness with a name outside the registry
  \/ frozen[s]
  \/ (kind = "tag" /\ x \in bannedT[s])
  \/ (kind = "filter" /\ x \in bannedF[s])

Ban(t, s, kind, x) ==
  /\ Sched("Ban", t, s, x, IF kind = "tag" THEN 1 ELSE 0)
  /\ pc[t] = "idle" /\ nops[t] < MaxOps
  /\ nops' = [nops EXCEPT ![t] = @ + 1]
  /\ IF BanRefused(s, kind, x)
       THEN /\ UNCHANGED <<bannedT, bannedF>>
            /\ Done(t, [op |-> "Ban", s |-> s, n |-> x, res |-> 0, how |-> kind, ver |-> 0,
                        bt |-> bannedT[s], bf |-> bannedF[s], fr |-> frozen[s]])
       ELSE /\ bannedT' = IF kind = "tag" THEN [bannedT EXCEPT ![s] = @ \cup {x}] ELSE bannedT
            /\ bannedF' = IF kind = "filter" THEN [bannedF EXCEPT ![s] = @ \cup {x}] ELSE bannedF
            /\ Done(t, [op |-> "Ban", s |-> s, n |-> x, res |-> 1, how |-> kind, ver |-> 0,
                        bt |-> bannedT'[s], bf |-> bannedF'[s], fr |-> frozen[s]])
  /\ UNCHANGED <<cache, debug, glob, opt, mutex, file, frozen, pc, cur,
                 nextId, tplVer, tplOpt, tplEpoch, epoch, loads, fetches, nenv>>

\* From{String,Bytes,File}, Render*: freeze, then compile; fails iff a banned name is used.
CompileOK(s, usesT, usesF) == usesT \cap bannedT[s] = {} /\ usesF \cap bannedF[s] = {}

Compile(t, s, usesT, usesF, how) ==
  /\ Sched("Compile", t, s, how, 0)
  /\ pc[t] = "idle" /\ nops[t] < MaxOps
  /\ nops' = [nops EXCEPT ![t] = @ + 1]
  /\ frozen' = [frozen EXCEPT ![s] = TRUE]
  /\ Done(t, [op |-> "Compile", s |-> s, n |-> <<usesT, usesF>>, how |-> how,
              res |-> IF CompileOK(s, usesT, usesF) THEN 1 ELSE 0, ver |-> 0,
              bt |-> bannedT[s], bf |-> bannedF[s], fr |-> TRUE])
  /\ UNCHANGED <<cache, debug, glob, opt, mutex, file, bannedT, bannedF, pc, cur,
                 nextId, tplVer, tplOpt, tplEpoch, epoch, loads, fetches, nenv>>

----------------------------------------------------------------------------
NextCache ==
  \/ \E t \in Threads, s \in Sets, n \in Names : FcBegin(t, s, n)
  \/ \E t \in Threads : FcLock(t) \/ FcCrit(t) \/ FcUnlock(t) \/ CcLock(t) \/ CcCrit(t) \/ CcUnlock(t)
  \/ \E t \in Threads, s \in Sets, n \in Names, pre \in BOOLEAN : CcBegin(t, s, n, FALSE, pre)
  \/ \E t \in Threads, s \in Sets : CcBegin(t, s, CHOOSE n \in Names : TRUE, TRUE, FALSE)
  \/ \E s \in Sets, b \in BOOLEAN : SetDebug(s, b)
  \/ \E s \in Sets, v \in 0..1 : SetGlobal(s, v)
  \/ \E s \in Sets, b \in BOOLEAN : SetOpt(s, b)
  \/ \E n \in Names, v \in Broken..MaxVer : ChangeFile(n, v)

NextBan ==
  \/ \E t \in Threads, s \in Sets, k \in {"tag", "filter"}, x \in Vocab \cup {"unknown_name"} : Ban(t, s, k, x)
  \* `how` (FromString / FromFile / Render*) does not influence the model; the harness rotates through the entry points
  \/ \E t \in Threads, s \in Sets, uT \in SUBSET Vocab, uF \in SUBSET Vocab :
        /\ Cardinality(uT) + Cardinality(uF) <= 1
        /\ Compile(t, s, uT, uF, "any")

Next == NextCache \/ NextBan

SpecCache == Init /\ [][NextCache]_vars
SpecBan   == Init /\ [][NextBan]_vars
Spec      == Init /\ [][Next]_vars

----------------------------------------------------------------------------
(* Properties *)

HoldsLock(t) == pc[t] \in {"fccrit", "fcunlock", "cccrit", "ccunlock"}

MutexDiscipline ==
  /\ \A t \in Threads : HoldsLock(t) => mutex[cur[t].s] = t
  /\ \A s \in Sets : mutex[s] # None => HoldsLock(mutex[s]) /\ cur[mutex[s]].s = s
  /\ \A a, b \in Threads : (HoldsLock(a) /\ HoldsLock(b) /\ cur[a].s = cur[b].s) => a = b

\* One compile per (set, name) until cleaned, whatever the interleaving.
CompileOnce == \A s \in Sets, n \in Names : loads[s][n] <= 1

\* Every cached id was compiled through the cache in the current epoch of its entry: failures and
\* bypass (Debug) results never sit in the cache, and nothing survives a clean.
CacheSound ==
  \A s \in Sets, n \in Names :
    cache[s][n] # 0 => /\ cache[s][n] < nextId
                       /\ tplEpoch[cache[s][n]] = epoch[s][n]
                       /\ loads[s][n] = 1

\* Results: completed FromCache calls through the cache.
CacheResults == {i \in 1..Len(hist) : hist[i].op = "FromCache" /\ hist[i].how = "cache" /\ hist[i].res # 0}

\* SameUntilCleaned: two successful calls for the same entry whose templates were loaded in the same epoch
\* are the same template.
SameUntilCleaned ==
  \A i, j \in CacheResults :
    (hist[i].s = hist[j].s /\ hist[i].n = hist[j].n /\ tplEpoch[hist[i].res] = tplEpoch[hist[j].res])
       => hist[i].res = hist[j].res

\* FreshAfterClean / DebugBypasses / SetsIndependent / FrozenAfterFirst as action properties.
DebugBypasses ==
  [][\A t \in Threads, s \in Sets, n \in Names : (FcBegin(t, s, n) /\ debug[s]) => UNCHANGED cache]_vars

SetsIndependent ==
  [][\A t \in Threads :
       (pc[t] # "idle" /\ pc'[t] # pc[t]) =>
          \A s \in Sets \ {cur[t].s} : /\ cache'[s] = cache[s] /\ debug'[s] = debug[s] /\ mutex'[s] = mutex[s]
                                      /\ glob'[s] = glob[s] /\ opt'[s] = opt[s]
                                      /\ bannedT'[s] = bannedT[s] /\ bannedF'[s] = bannedF[s]
                                      /\ frozen'[s] = frozen[s]]_vars

CleanOnlyUnderLock ==
  [][\A s \in Sets : (\E n \in Names : cache[s][n] # 0 /\ cache'[s][n] # cache[s][n]) => mutex[s] # None]_vars

FrozenAfterFirst ==
  [][\A s \in Sets : frozen[s] => (frozen'[s] /\ bannedT'[s] = bannedT[s] /\ bannedF'[s] = bannedF[s])]_vars

BansOnlyGrow ==
  [][\A s \in Sets : bannedT[s] \subseteq bannedT'[s] /\ bannedF[s] \subseteq bannedF'[s]]_vars

\* every compile recorded in the history was judged against the ban lists in force, and these never
\* change after the first compile, so a compile result is a function of (set, uses) from then on
BanVerdictStable ==
  \A i, j \in 1..Len(hist) :
    (hist[i].op = "Compile" /\ hist[j].op = "Compile" /\ hist[i].s = hist[j].s /\ hist[i].n = hist[j].n)
      => hist[i].res = hist[j].res

\* a successful ban is recorded, a refused one changes nothing (read off the history's post-states)
BanEffect ==
  \A i \in 1..Len(hist) :
    hist[i].op = "Ban" =>
      /\ (hist[i].res = 1) => (IF hist[i].how = "tag" THEN hist[i].n \in hist[i].bt ELSE hist[i].n \in hist[i].bf)
      /\ (hist[i].res = 1) => ~hist[i].fr
      /\ (hist[i].n \notin Vocab) => hist[i].res = 0

\* a compile fails exactly when it uses a name on the set's ban lists at that moment - other sets' lists are irrelevant
CompileVerdict ==
  \A i \in 1..Len(hist) :
    hist[i].op = "Compile" =>
      (hist[i].res = 0) <=> (hist[i].n[1] \cap hist[i].bt # {} \/ hist[i].n[2] \cap hist[i].bf # {})

\* Liveness (checked under SpecCacheFair): every started operation completes.
Fairness == \A t \in Threads : WF_vars(FcLock(t) \/ FcCrit(t) \/ FcUnlock(t) \/ CcLock(t) \/ CcCrit(t) \/ CcUnlock(t))
SpecCacheFair == SpecCache /\ Fairness
EveryOpCompletes == \A t \in Threads : (pc[t] # "idle") ~> (pc[t] = "idle")

AllDone == \A t \in Threads : pc[t] = "idle" /\ nops[t] = MaxOps
=============================================================================
