------------------------------ MODULE PongoRoutes ------------------------------
(***************************************************************************)
(* Sandbox routes (C03).  A use of a tag or filter name is reached from the *)
(* template being compiled by a syntactic route (where in the document it   *)
(* is written) and a file route (which file it is written in and how that   *)
(* file is pulled in).  The rule of the sandbox is uniform in both: the     *)
(* outcome depends only on whether the name is on the ban list of the set   *)
(* the template is compiled in.  The specification makes the quantifier     *)
(* domain explicit (every route x every file route x banned / not banned /  *)
(* banned elsewhere) and predicts the observable outcome; the harness       *)
(* instantiates each vector with every name in the live registries.         *)
(***************************************************************************)
EXTENDS Naturals, Sequences, FiniteSets, TLC, Json

\* where a tag may be written
SynTagRoutes == {"top", "if_body", "else_body", "elif_body", "for_body", "for_empty", "with_body", "block_body",
                 "macro_body", "autoescape_body", "spaceless_body", "filtertag_body", "ifchanged_body",
                 "ifchanged_else", "ifequal_body", "ifnotequal_else", "nested3"}
\* where a filter may be written
SynFilterRoutes == {"output", "if_cond", "elif_cond", "for_iter", "with_pair", "with_old_style", "set_value",
                    "macro_default", "macro_arg", "call_arg", "subscript", "array_item", "include_name",
                    "include_pair", "cycle_arg", "firstof_arg", "ifequal_arg", "ifnotequal_arg",
                    "widthratio_arg", "ifchanged_arg", "filtertag_chain", "filtertag_chain_second",
                    "after_param_filter", "in_parens", "binary_operand", "nested_body",
                    \* positions the grammar of today does not admit (a chain directly behind a closing bracket, behind a subscript):
                    \* whether or not they compile when nothing is banned, a banned name written there never does
                    "after_parens", "after_subscript"}
\* which file the use is written in
FileRoutes == {"same", "static_include", "lazy_include", "parent", "grandparent", "import", "ssi_parsed",
               "include_in_include", "from_file", "from_cache",
               \* forgiving references forgive a missing file only, never what an existing file does
               "static_include_if_exists", "lazy_include_if_exists", "if_exists_in_include", "include_if_exists_of_child"}

VARIABLE v

Status == {"banned", "free", "banned_other_set", "other_name_banned"}

Vectors == [kind : {"tag"}, syn : SynTagRoutes, file : FileRoutes, status : Status]
     \cup [kind : {"filter"}, syn : SynFilterRoutes, file : FileRoutes, status : Status]

\* Observable outcome of compiling (and, if that succeeds, executing) the root template.
\* A lazily included file is compiled when the include executes, so the failure surfaces at execution.
\* A filter named in the `filter` tag's own chain may be rejected at execution at the latest (C19).
Outcome(x) ==
  IF x.status # "banned" THEN "ok"
  ELSE IF x.file \in {"lazy_include", "lazy_include_if_exists"} \/ (x.syn = "include_name" /\ FALSE) THEN "exec_error"
  ELSE "compile_error"

Init == v \in Vectors
Next == UNCHANGED v

\* design sanity: the outcome is a function of the ban status alone, for every route
Uniform == \A a, b \in Vectors : (a.status = b.status /\ a.file = b.file) => Outcome(a) = Outcome(b)
BannedNeverOk == \A a \in Vectors : a.status = "banned" => Outcome(a) # "ok"
OthersUnaffected == \A a \in Vectors : a.status # "banned" => Outcome(a) = "ok"
ASSUME Uniform /\ BannedNeverOk /\ OthersUnaffected

Emit == PrintT(ToJson([m |-> "PongoRoutes", vec |-> v, exp |-> Outcome(v)]))
=============================================================================
