------------------------------ MODULE PongoInherit ------------------------------
(***************************************************************************)
(* Template inheritance (C10).                                             *)
(*                                                                         *)
(* A chain  L0 <- L1 <- ... <- Ld  (Lk extends L(k-1)).  Every level has a  *)
(* block table  name -> body  and a document (the text outside / around    *)
(* blocks; only L0's document is ever rendered).  A body is a tuple of      *)
(* items:  text(s) | super | loopvar | block(name, wrap)  where block(...) is *)
(* place where a block is defined *and* rendered; wrap says whether it sits *)
(* directly, in an `if`, or in a `for` over the two-element list (1, 2);     *)
(* loopvar prints the variable of the innermost enclosing such loop (empty   *)
(* outside any) - also when it is reached through Super or through a block   *)
(* item of another definition: it is evaluated where and when it is rendered.*)
(*                                                                         *)
(* Rendering Lk = L0's document with every block item replaced by the       *)
(* definition from the most-derived level <= k that defines the name;       *)
(* `super` inside the definition at level j = the next definition below j   *)
(* (nothing at the bottom); block items inside bodies dispatch again over   *)
(* the whole chain.                                                        *)
(***************************************************************************)
EXTENDS Integers, Sequences, FiniteSets, TLC

Text(s) == [t |-> "text", s |-> s]
Super == [t |-> "super"]
LoopVar == [t |-> "loopvar"]
\* def: a macro and a variable defined at that place; probe: a call of that macro and a print of that variable.
\* Generated chains have defs only in the documents of templates that extend (never executed: what a child writes outside
\* blocks is ignored, definitions included), so a probe prints nothing.
Def == [t |-> "def"]
Probe == [t |-> "probe"]
Block(name, wrap) == [t |-> "block", name |-> name, wrap |-> wrap]

\* chain: tuple of levels (index 1 = L0); level: [doc |-> items, blocks |-> [names -> items]]
Defines(level, name) == name \in DOMAIN level.blocks
\* the levels <= k (1-based index) that define name, ascending
DefLevels(chain, k, name) == SelectSeq([i \in 1..k |-> i], LAMBDA i : Defines(chain[i], name))

RECURSIVE RenderItems(_, _, _, _, _, _), RenderDefs(_, _, _, _, _, _), Repeat(_, _)
Repeat(s, n) == IF n = 0 THEN <<>> ELSE s \o Repeat(s, n - 1)

\* defs: the definitions (levels) still below the one being rendered - what `super` can reach
\* fuel bounds the nesting of block executions: definitions at different levels can refer to each other in a cycle
\* (a's parent definition contains b, b's override contains a whose override asks for Super ...); such chains have no
\* finite rendering - "CYCLE" marks them and they are kept out of the conformance replay (see DESIGN.md, C01)
RenderDefs(chain, k, name, defs, fuel, lv) ==
  IF defs = <<>> THEN <<>>
  ELSE IF fuel = 0 THEN <<"CYCLE">>
  ELSE LET j == defs[Len(defs)] IN
       RenderItems(chain, k, chain[j].blocks[name], [name |-> name, below |-> SubSeq(defs, 1, Len(defs) - 1)], fuel - 1, lv)

\* cur: the block whose body is being rendered ([name, below]) or NoBlock in the document
NoBlock == [name |-> "", below |-> <<>>]
RenderItems(chain, k, items, cur, fuel, lv) ==
  IF items = <<>> THEN <<>>
  ELSE LET it == Head(items) IN
       LET here ==
         CASE it.t = "text" -> <<it.s>>
           [] it.t = "loopvar" -> <<lv>>
           [] it.t \in {"def", "probe"} -> <<>>
           [] it.t = "super" -> IF cur.name = "" THEN <<>> ELSE RenderDefs(chain, k, cur.name, cur.below, fuel, lv)
           [] it.t = "block" ->
                LET once(v) == RenderDefs(chain, k, it.name, DefLevels(chain, k, it.name), fuel, v) IN
                CASE it.wrap = "none" -> once(lv) [] it.wrap = "if" -> once(lv) [] it.wrap = "for" -> once("1") \o once("2")
       IN here \o RenderItems(chain, k, Tail(items), cur, fuel, lv)

\* rendering the template at level k (1-based): the base document, dispatching over levels 1..k
Render(chain, k) == RenderItems(chain, k, chain[1].doc, NoBlock, 12, "")
Cyclic(out) == \E i \in 1..Len(out) : out[i] = "CYCLE"

\* ---- properties of the definition itself
\* a parent's rendering does not depend on the levels above it
ParentUnaffected(chain) == \A k \in 1..Len(chain) : Render(chain, k) = Render(SubSeq(chain, 1, k), k)
\* what a child writes outside blocks is ignored: replacing the documents of levels > 1 changes nothing
OutsideIgnored(chain) ==
  LET stripped == [i \in 1..Len(chain) |-> IF i = 1 THEN chain[i] ELSE [chain[i] EXCEPT !.doc = <<>>]] IN
  \A k \in 1..Len(chain) : Render(chain, k) = Render(stripped, k)

\* ---- ExecuteBlocks (the API that renders named blocks of a template on their own, without its document):
\* for every requested name that some level <= k defines, the rendering of the most-derived definition - exactly what
\* that block shows inside Render(chain, k) when it stands outside any loop - with Super reaching the less-derived
\* definitions and nested block items dispatching over the whole chain; names nobody defines are absent from the result.
\* The result does not depend on which other names are requested, nor on their order.
RenderBlock(chain, k, name) == RenderDefs(chain, k, name, DefLevels(chain, k, name), 12, "")
Defined(chain, k, name) == DefLevels(chain, k, name) # <<>>
ExecuteBlocks(chain, k, req) == [n \in {x \in req : Defined(chain, k, x)} |-> RenderBlock(chain, k, n)]

\* s occurs as a contiguous run in t
Within(s, t) == \E i \in 0..(Len(t) - Len(s)) : SubSeq(t, i + 1, i + Len(s)) = s
\* a block that the base document shows plainly (not in a loop) appears in the rendering as ExecuteBlocks gives it
BlocksAgreeWithRender(chain) ==
  \A k \in 1..Len(chain) : \A i \in 1..Len(chain[1].doc) :
     LET it == chain[1].doc[i] IN
     (it.t = "block" /\ it.wrap # "for") => Within(RenderBlock(chain, k, it.name), Render(chain, k))
\* a level that neither defines nor inherits a change keeps the block: adding a level without definitions changes nothing
BlocksInherited(chain) ==
  \A k \in 1..Len(chain) : \A n \in {"a", "b"} :
     (k > 1 /\ ~Defines(chain[k], n)) => (Defined(chain, k, n) = Defined(chain, k - 1, n))
=============================================================================
