------------------------------ MODULE PongoLexer ------------------------------
(***************************************************************************)
(* The pongo2 lexer as a small-step machine over the source bytes          *)
(* (C06 literal text / verbatim / comments, C15 trim flags, C16 positions). *)
(*                                                                         *)
(* One action per lexer state function / branch of lexer.run():            *)
(*   text mode    : OpenVerbatim, Comment (skip | unclosed | newline),      *)
(*                  OpenCode, TextRun, TextEOF                              *)
(*   verbatim mode: CloseVerbatim, VerbRun, VerbEOF                         *)
(*   code mode    : Space, NewlineInCode, Ident, Number, String (ok | bad   *)
(*                  escape | newline | eof), Symbol, AbandonCode            *)
(* AbandonCode is a named deviation from what a Django user would expect:   *)
(* a character the code-mode lexer does not know ends code mode silently    *)
(* and the rest is lexed as text again (the parser then reports the error). *)
(*                                                                         *)
(* The machine keeps line/column incrementally, the way an implementation   *)
(* does.  The invariants compare that bookkeeping with the declarative      *)
(* definition (LineOf/ColOf) and require that token spans plus skipped      *)
(* spans tile the source.                                                  *)
(***************************************************************************)
EXTENDS PongoBase, TLC

VARIABLES
  src,      \* the source, a sequence of bytes
  pos,      \* next unread offset (1-based)
  start,    \* offset where the pending item starts
  line, col,        \* position of pos
  sline, scol,      \* position of start
  mode,     \* "text" | "verbatim" | "code" | "done"
  tokens,   \* emitted tokens: [typ, val, line, col, trim, from, to]  (from/to: source span, ghost)
  err,      \* [msg, line, col] or NoErr
  skipped   \* ghost: spans consumed without producing a token: [from, to, why]

lexVars == <<src, pos, start, line, col, sline, scol, mode, tokens, err, skipped>>

NoErr == [msg |-> "", line |-> 0, col |-> 0]
N == Len(src)

LexInit(s) ==
  /\ src = s
  /\ pos = 1 /\ start = 1
  /\ line = 1 /\ col = 1 /\ sline = 1 /\ scol = 1
  /\ mode = "text"
  /\ tokens = <<>>
  /\ err = NoErr
  /\ skipped = <<>>

\* start lexing another source (used to chain recorded traces)
LexReset(s) ==
  /\ src' = s
  /\ pos' = 1 /\ start' = 1
  /\ line' = 1 /\ col' = 1 /\ sline' = 1 /\ scol' = 1
  /\ mode' = "text"
  /\ tokens' = <<>>
  /\ err' = NoErr
  /\ skipped' = <<>>

----------------------------------------------------------------------------
(* helpers *)

\* advance the running position over src[from..to-1] (incremental bookkeeping: what the invariants test)
LineAfter(l, from, to) == l + CountIn(src, from, to - 1, NL)
ColAfter(c, from, to) ==
  LET nls == {i \in from..(to - 1) : src[i] = NL} IN
  IF nls = {} THEN c + (to - from)
  ELSE (to - 1) - (CHOOSE m \in nls : \A j \in nls : j <= m) + 1

Tok(typ, val, trim, from, to) ==
  [typ |-> typ, val |-> val, line |-> sline, col |-> scol, trim |-> trim, from |-> from, to |-> to]

\* emit the pending text (start..pos-1) as one HTML token, if there is any
PendingHtml == IF pos > start THEN <<Tok("HTML", Slice(src, start, pos - 1), FALSE, start, pos - 1)>> ELSE <<>>

\* move to offset q (consuming src[pos..q-1]) and make it the start of the next item
Goto(q) ==
  /\ pos' = q /\ start' = q
  /\ line' = LineAfter(line, pos, q) /\ col' = ColAfter(col, pos, q)
  /\ sline' = LineAfter(line, pos, q) /\ scol' = ColAfter(col, pos, q)

Fail(msg, l, c) ==
  /\ err' = [msg |-> msg, line |-> l, col |-> c]
  /\ mode' = "done"

\* end of a run of plain bytes beginning at p: at least one byte, then up to (not including) the next '{' or EOF
RunEnd(p) ==
  LET stops == {j \in (p + 1)..N : src[j] = LBRACE} IN
  IF stops = {} THEN N + 1 ELSE CHOOSE m \in stops : \A j \in stops : m <= j

AtVerbOpen  == PrefixAt(src, pos, VerbatimOpen)
AtComment   == PrefixAt(src, pos, CommentOpen)
AtCodeOpen  == PrefixAt(src, pos, VarOpen) \/ PrefixAt(src, pos, TagOpen)

----------------------------------------------------------------------------
(* text mode *)

OpenVerbatim ==
  /\ mode = "text" /\ pos <= N /\ AtVerbOpen
  /\ tokens' = tokens \o PendingHtml
  /\ Goto(pos + Len(VerbatimOpen))
  /\ skipped' = Append(skipped, [from |-> pos, to |-> pos + Len(VerbatimOpen) - 1, why |-> "verbatim-open"])
  /\ mode' = "verbatim"
  /\ UNCHANGED <<src, err>>

\* first offset j >= pos+2 where the comment scan stops: EOF, a newline, or the closing "#}"
CommentStop ==
  LET S == {j \in (pos + 2)..(N + 1) : j = N + 1 \/ src[j] = NL \/ PrefixAt(src, j, CommentClose)} IN
  CHOOSE m \in S : \A j \in S : m <= j

Comment ==
  /\ mode = "text" /\ pos <= N /\ ~AtVerbOpen /\ AtComment
  /\ tokens' = tokens \o PendingHtml
  /\ LET j == CommentStop IN
       IF j = N + 1 THEN
            \* the error is reported at the start of the comment
            /\ Fail("Single-line comment not closed.", line, col)
            /\ start' = pos /\ sline' = line /\ scol' = col
            /\ UNCHANGED <<pos, line, col, skipped>>
       ELSE IF src[j] = NL THEN
            /\ Fail("Newline not permitted in a single-line comment.", line, col)
            /\ start' = pos /\ sline' = line /\ scol' = col
            /\ UNCHANGED <<pos, line, col, skipped>>
       ELSE /\ Goto(j + 2)
            /\ skipped' = Append(skipped, [from |-> pos, to |-> j + 1, why |-> "comment"])
            /\ UNCHANGED <<mode, err>>
  /\ UNCHANGED src

OpenCode ==
  /\ mode = "text" /\ pos <= N /\ ~AtVerbOpen /\ ~AtComment /\ AtCodeOpen
  /\ tokens' = tokens \o PendingHtml
  /\ start' = pos /\ sline' = line /\ scol' = col
  /\ mode' = "code"
  /\ UNCHANGED <<src, pos, line, col, err, skipped>>

TextRun ==
  /\ mode = "text" /\ pos <= N /\ ~AtVerbOpen /\ ~AtComment /\ ~AtCodeOpen
  /\ LET q == RunEnd(pos) IN
       /\ pos' = q
       /\ line' = LineAfter(line, pos, q) /\ col' = ColAfter(col, pos, q)
  /\ UNCHANGED <<src, start, sline, scol, mode, tokens, err, skipped>>

TextEOF ==
  /\ mode = "text" /\ pos = N + 1
  /\ tokens' = tokens \o PendingHtml
  /\ start' = pos /\ sline' = line /\ scol' = col
  /\ mode' = "done"
  /\ UNCHANGED <<src, pos, line, col, err, skipped>>

----------------------------------------------------------------------------
(* verbatim mode: everything up to the closing delimiter is literal text *)

CloseVerbatim ==
  /\ mode = "verbatim" /\ pos <= N /\ PrefixAt(src, pos, VerbatimClose)
  /\ tokens' = tokens \o PendingHtml
  /\ Goto(pos + Len(VerbatimClose))
  /\ skipped' = Append(skipped, [from |-> pos, to |-> pos + Len(VerbatimClose) - 1, why |-> "verbatim-close"])
  /\ mode' = "text"
  /\ UNCHANGED <<src, err>>

VerbRun ==
  /\ mode = "verbatim" /\ pos <= N /\ ~PrefixAt(src, pos, VerbatimClose)
  /\ LET q == RunEnd(pos) IN
       /\ pos' = q
       /\ line' = LineAfter(line, pos, q) /\ col' = ColAfter(col, pos, q)
  /\ UNCHANGED <<src, start, sline, scol, mode, tokens, err, skipped>>

VerbEOF ==
  /\ mode = "verbatim" /\ pos = N + 1
  /\ tokens' = tokens \o PendingHtml
  /\ Fail("verbatim-tag not closed, got EOF.", line, col)
  /\ start' = pos /\ sline' = line /\ scol' = col
  /\ UNCHANGED <<src, pos, line, col, skipped>>

----------------------------------------------------------------------------
(* code mode: between "{{"/"{%" and the closing delimiter.  In code mode start = pos between tokens. *)

InCode == mode = "code" /\ pos <= N

Space ==
  /\ InCode /\ src[pos] \in {SP, CR, TAB}
  /\ Goto(pos + 1)
  /\ skipped' = Append(skipped, [from |-> pos, to |-> pos, why |-> "space"])
  /\ UNCHANGED <<src, mode, tokens, err>>

NewlineInCode ==
  /\ InCode /\ src[pos] = NL
  /\ Fail("Newline not allowed within tag/variable.", line, col)
  /\ UNCHANGED <<src, pos, start, line, col, sline, scol, tokens, skipped>>

\* end (exclusive) of the maximal run of bytes satisfying P(_) starting at p
RunWhile(p, P(_)) ==
  LET stops == {j \in p..N : ~P(src[j])} IN
  IF stops = {} THEN N + 1 ELSE CHOOSE m \in stops : \A j \in stops : m <= j

\* identifier: letters/underscore, then letters/digits/underscore.  A number directly followed by a
\* letter is an identifier as well ("2col").
WordEnd(p) == RunWhile(p, IsIdentChar)

EmitWord(typ, q) ==
  /\ tokens' = Append(tokens, Tok(typ, Slice(src, pos, q - 1), FALSE, pos, q - 1))
  /\ Goto(q)
  /\ UNCHANGED <<src, mode, err, skipped>>

Ident ==
  /\ InCode /\ IsLetter(src[pos])
  /\ LET q == WordEnd(pos)
         w == Slice(src, pos, q - 1) IN
     EmitWord(IF w \in Keywords THEN "Keyword" ELSE "Identifier", q)

Number ==
  /\ InCode /\ IsDigit(src[pos])
  /\ LET d == RunWhile(pos, IsDigit) IN
       IF d <= N /\ IsLetter(src[d])
         THEN LET q == WordEnd(pos) w == Slice(src, pos, q - 1) IN
              EmitWord(IF w \in Keywords THEN "Keyword" ELSE "Identifier", q)
         ELSE EmitWord("Number", d)

\* string: from the opening quote to the same quote; inside, backslash may only precede '"' or '\'.
\* StrScan(p, qc) walks the body from p and returns <<kind, offset>>: "close" (offset of the closing quote),
\* "badesc" (offset of the backslash), "newline", "eof".
RECURSIVE StrScan(_, _)
StrScan(p, qc) ==
  IF p > N THEN <<"eof", p>>
  ELSE IF src[p] = qc THEN <<"close", p>>
  ELSE IF src[p] = NL THEN <<"newline", p>>
  ELSE IF src[p] = BSLASH THEN
         IF p + 1 <= N /\ src[p + 1] \in {DQUOTE, BSLASH} THEN StrScan(p + 2, qc)
         ELSE <<"badesc", p>>
  ELSE StrScan(p + 1, qc)

\* escape processing of a string body, left to right
RECURSIVE Unescape(_)
Unescape(s) ==
  IF s = <<>> THEN <<>>
  ELSE IF Head(s) = BSLASH /\ Len(s) >= 2 /\ s[2] \in {DQUOTE, BSLASH} THEN <<s[2]>> \o Unescape(SubSeq(s, 3, Len(s)))
  ELSE <<Head(s)>> \o Unescape(Tail(s))

String ==
  /\ InCode /\ src[pos] \in {DQUOTE, SQUOTE}
  /\ LET r == StrScan(pos + 1, src[pos]) IN
       IF r[1] = "close" THEN
            \* the token is positioned at the opening quote; its value is the unescaped body
            /\ tokens' = Append(tokens, Tok("String", Unescape(Slice(src, pos + 1, r[2] - 1)), FALSE, pos, r[2]))
            /\ Goto(r[2] + 1)
            /\ UNCHANGED <<mode, err>>
       ELSE /\ Fail(CASE r[1] = "eof" -> "Unexpected EOF, string not closed."
                      [] r[1] = "newline" -> "Newline in string is not allowed."
                      [] OTHER -> "Unknown escape sequence", line, col)
            /\ UNCHANGED <<pos, start, line, col, sline, scol, tokens>>
  /\ UNCHANGED <<src, skipped>>

MatchingSymbols == {i \in 1..Len(Symbols) : PrefixAt(src, pos, Symbols[i])}
HasSymbol == MatchingSymbols # {}
TheSymbol == Symbols[CHOOSE i \in MatchingSymbols : \A j \in MatchingSymbols : i <= j]

Symbol ==
  /\ InCode /\ ~IsSpace(src[pos]) /\ ~IsIdentChar(src[pos]) /\ src[pos] \notin {DQUOTE, SQUOTE}
  /\ HasSymbol
  /\ LET sym == TheSymbol
         trim == Len(sym) = 3                       \* the four 3-byte symbols are the delimiters carrying '-'
         val == IF trim THEN SelectSeq(sym, LAMBDA c : c # DASH) ELSE sym IN
       /\ tokens' = Append(tokens, Tok("Symbol", val, trim, pos, pos + Len(sym) - 1))
       /\ Goto(pos + Len(sym))
       /\ mode' = IF sym \in Closers THEN "text" ELSE "code"
  /\ UNCHANGED <<src, err, skipped>>

\* a byte that starts nothing known in code mode (or EOF): code mode ends without error, lexing resumes as text
AbandonCode ==
  /\ mode = "code"
  /\ \/ pos = N + 1
     \/ /\ pos <= N /\ ~IsSpace(src[pos]) /\ ~IsIdentChar(src[pos]) /\ src[pos] \notin {DQUOTE, SQUOTE}
        /\ ~HasSymbol
  /\ mode' = "text"
  /\ UNCHANGED <<src, pos, start, line, col, sline, scol, tokens, err, skipped>>

----------------------------------------------------------------------------
LexNext ==
  \/ OpenVerbatim \/ Comment \/ OpenCode \/ TextRun \/ TextEOF
  \/ CloseVerbatim \/ VerbRun \/ VerbEOF
  \/ Space \/ NewlineInCode \/ Ident \/ Number \/ String \/ Symbol \/ AbandonCode

LexDone == mode = "done"

----------------------------------------------------------------------------
(* Invariants *)

\* C16: the incremental bookkeeping equals the declarative position, for the cursor and for every token
CursorExact == /\ line = LineOf(src, pos) /\ col = ColOf(src, pos)
               /\ sline = LineOf(src, start) /\ scol = ColOf(src, start)
PositionExact == \A i \in 1..Len(tokens) :
                    /\ tokens[i].line = LineOf(src, tokens[i].from)
                    /\ tokens[i].col = ColOf(src, tokens[i].from)

\* C06: an HTML token's value is exactly its source span
HtmlExact == \A i \in 1..Len(tokens) :
                tokens[i].typ = "HTML" => tokens[i].val = Slice(src, tokens[i].from, tokens[i].to)

\* C06: token spans and skipped spans tile src[1..start-1] in order, without gap or overlap
Spans == [i \in 1..(Len(tokens) + Len(skipped)) |->
            IF i <= Len(tokens) THEN <<tokens[i].from, tokens[i].to>> ELSE <<skipped[i - Len(tokens)].from, skipped[i - Len(tokens)].to>>]
Coverage ==
  LET S == {Spans[i] : i \in DOMAIN Spans} IN
  /\ \A a, b \in S : a # b => (a[2] < b[1] \/ b[2] < a[1])
  /\ \A p \in 1..(start - 1) : \E a \in S : a[1] <= p /\ p <= a[2]
  /\ \A a \in S : a[1] <= a[2] /\ a[2] < start

\* C06: a source without an opening delimiter is one text token equal to the source (none if empty)
HasDelim == \E p \in 1..(N - 1) : src[p] = LBRACE /\ src[p + 1] \in {LBRACE, PCT, HASH}
NoDelimIdentity ==
  (LexDone /\ ~HasDelim) =>
     /\ err = NoErr
     /\ IF N = 0 THEN tokens = <<>> ELSE (Len(tokens) = 1 /\ tokens[1].typ = "HTML" /\ tokens[1].val = src)

\* C06: text is emitted in source order, and nothing the lexer emits as text was ever inside a comment
TokensOrdered == \A i \in 1..(Len(tokens) - 1) : tokens[i].to < tokens[i + 1].from

\* verbatim: between an opening and its closing delimiter there is at most one token and it is text
VerbatimLiteral ==
  \A i \in 1..Len(skipped) :
    skipped[i].why = "verbatim-open" =>
      LET closes == {j \in (i + 1)..Len(skipped) : skipped[j].why = "verbatim-close"} IN
      closes # {} =>
        LET j == CHOOSE m \in closes : \A k \in closes : m <= k
            inside == {t \in 1..Len(tokens) : tokens[t].from > skipped[i].to /\ tokens[t].to < skipped[j].from} IN
        /\ Cardinality(inside) <= 1
        /\ \A t \in inside : /\ tokens[t].typ = "HTML"
                             /\ tokens[t].from = skipped[i].to + 1 /\ tokens[t].to = skipped[j].from - 1

\* C15: exactly the four dash delimiters carry the trim flag, and their value is the plain delimiter
TrimFlags == \A i \in 1..Len(tokens) :
                tokens[i].trim <=> (tokens[i].typ = "Symbol" /\ tokens[i].to - tokens[i].from = 2)

\* termination: every step consumes input or moves towards "done" (variant checked as an action property)
Rank == CASE mode = "code" -> 2 [] mode = "text" -> 1 [] mode = "verbatim" -> 1 [] OTHER -> 0
Progress == [][(pos' > pos) \/ (pos' = pos /\ mode' # mode)]_lexVars
NoStuck == (mode # "done") => ENABLED LexNext
=============================================================================
