------------------------------- MODULE PongoExpr -------------------------------
(***************************************************************************)
(* Expressions (C07): trees over integer, float, string and boolean        *)
(* literals; how a tree is written down with the fewest parentheses the     *)
(* documented precedence allows (Tokens), and what it evaluates to (Eval),  *)
(* printed canonically (Canon).                                            *)
(*                                                                         *)
(* Precedence, loosest first:  or/and < comparisons, in < + - < * / % < ^   *)
(* (right-associative) ; unary minus / not sit at the head of an additive   *)
(* chain and apply to its first term (so -a^b = -(a^b), -a*b = -(a*b)).      *)
(* Floats are exact rationals n/d here (TLC has no floats); the harness     *)
(* compares their six-decimal rendering, with exact ties at the seventh     *)
(* decimal accepted either way.                                            *)
(***************************************************************************)
EXTENDS Integers, Sequences, TLC

Lit(k, n, d, s) == [t |-> "lit", k |-> k, n |-> n, d |-> d, s |-> s]   \* k: "int" | "float" (n/d) | "str" | "bool" (n = 0/1)
IntL(n) == Lit("int", n, 1, "")
FloatL(n, d) == Lit("float", n, d, "")
StrL(s) == Lit("str", 0, 1, s)
BoolL(b) == Lit("bool", IF b THEN 1 ELSE 0, 1, "")
Bin(op, a, b) == [t |-> "bin", op |-> op, a |-> a, b |-> b]
Neg(a) == [t |-> "neg", a |-> a]
Not(a) == [t |-> "not", a |-> a]

Prec(op) == CASE op \in {"and", "or"} -> 1
              [] op \in {"==", "!=", "<", ">", "<=", ">=", "in"} -> 2
              [] op \in {"+", "-"} -> 3
              [] op \in {"*", "/", "%"} -> 4
              [] op = "^" -> 5

----------------------------------------------------------------------------
(* printing with minimal parentheses *)

RECURSIVE Tok(_, _, _)
Paren(toks) == <<"(">> \o toks \o <<")">>
LitTok(l) == CASE l.k = "int" -> <<ToString(l.n)>>
               [] l.k = "float" -> <<"F", ToString(l.n), ToString(l.d)>>      \* the harness renders n/d as a decimal literal
               [] l.k = "str" -> <<"S", l.s>>
               [] l.k = "bool" -> <<IF l.n = 1 THEN "true" ELSE "false">>
\* Tok(t, lvl, head): tokens of t where an operand of level >= lvl is expected; head: a position where the grammar
\* admits a sign / not (start of an additive chain)
Tok(t, lvl, head) ==
  CASE t.t = "lit" -> LitTok(t)
    [] t.t = "list" -> <<t.name>>
    [] t.t = "neg" -> IF lvl <= 3 /\ head THEN <<"-">> \o Tok(t.a, 4, FALSE) ELSE Paren(<<"-">> \o Tok(t.a, 4, FALSE))
    [] t.t = "not" -> IF lvl <= 3 /\ head THEN <<"not">> \o Tok(t.a, 4, FALSE) ELSE Paren(<<"not">> \o Tok(t.a, 4, FALSE))
    [] t.t = "bin" ->
         LET p == Prec(t.op) IN
         LET body ==
               CASE p = 5 -> Tok(t.a, 6, FALSE) \o <<t.op>> \o Tok(t.b, 5, FALSE)                 \* right-associative
                 [] p = 4 -> Tok(t.a, 4, FALSE) \o <<t.op>> \o Tok(t.b, 5, FALSE)
                 [] p = 3 -> Tok(t.a, 3, head /\ lvl <= 3) \o <<t.op>> \o Tok(t.b, 4, FALSE)
                 [] p = 2 -> Tok(t.a, 3, TRUE) \o <<t.op>> \o Tok(t.b, 3, TRUE)                    \* no chaining
                 [] p = 1 -> Tok(t.a, 2, TRUE) \o <<t.op>> \o
                             (IF t.b.t = "bin" /\ Prec(t.b.op) = 1 /\ t.b.op # t.op THEN Paren(Tok(t.b, 1, TRUE)) ELSE Tok(t.b, 1, TRUE))
         IN IF p >= lvl THEN body ELSE Paren(CASE p = 3 -> Tok(t.a, 3, TRUE) \o <<t.op>> \o Tok(t.b, 4, FALSE) [] OTHER -> body)

Tokens(t) == Tok(t, 1, TRUE)

----------------------------------------------------------------------------
(* evaluation *)

RECURSIVE GCD(_, _)
GCD(a, b) == IF b = 0 THEN a ELSE GCD(b, a % b)
Abs(x) == IF x < 0 THEN 0 - x ELSE x
Val(k, n, d, s) == [k |-> k, n |-> n, d |-> d, s |-> s]
Norm(n, d) == LET g == GCD(Abs(n), Abs(d)) IN
              LET sg == IF d < 0 THEN 0 - 1 ELSE 1 IN
              IF g = 0 THEN Val("float", 0, 1, "") ELSE Val("float", sg * (n \div g), sg * (d \div g), "")
Err(msg) == Val("err", 0, 1, msg)
Pruned == Val("pruned", 0, 1, "")
IsNum(v) == v.k \in {"int", "float"}
Bad(v) == v.k \in {"err", "pruned"}
ListV(name, items) == [t |-> "list", name |-> name, items |-> items]
\* TLC's integers are 32-bit: operands are kept small enough that no intermediate product overflows; larger cases are pruned (and counted)
TooBig(v) == IsNum(v) /\ (Abs(v.n) > 30000 \/ v.d > 10000)
\* truncating integer division and remainder (C-like: towards zero)
TDiv(a, b) == LET q == Abs(a) \div Abs(b) IN IF (a < 0) # (b < 0) THEN 0 - q ELSE q
TMod(a, b) == a - b * TDiv(a, b)
\* integer value of a number (floats truncate)
AsInt(v) == IF v.k = "int" THEN v.n ELSE TDiv(v.n, v.d)

Truthy(v) == CASE v.k = "bool" -> v.n = 1 [] v.k = "int" -> v.n # 0 [] v.k = "float" -> v.n # 0 [] v.k = "str" -> v.s # "" [] OTHER -> FALSE
BoolV(b) == Val("bool", IF b THEN 1 ELSE 0, 1, "")

IsSquare(n) == \E r \in 0..12 : r * r = n
Sqrt(n) == CHOOSE r \in 0..12 : r * r = n
RECURSIVE PowInt(_, _, _)
\* (n/d)^e for e >= 0
PowInt(n, d, e) == IF e = 0 THEN <<1, 1>> ELSE LET r == PowInt(n, d, e - 1) IN <<r[1] * n, r[2] * d>>

\* a < b for numbers
NumLess(a, b) == a.n * b.d < b.n * a.d
NumEq(a, b) == a.n * b.d = b.n * a.d

Arith(op, a, b) ==
  IF ~IsNum(a) \/ ~IsNum(b) THEN Pruned
  ELSE LET fl == a.k = "float" \/ b.k = "float" IN
  CASE op = "+" -> IF fl THEN Norm(a.n * b.d + b.n * a.d, a.d * b.d) ELSE Val("int", a.n + b.n, 1, "")
    [] op = "-" -> IF fl THEN Norm(a.n * b.d - b.n * a.d, a.d * b.d) ELSE Val("int", a.n - b.n, 1, "")
    [] op = "*" -> IF fl THEN Norm(a.n * b.n, a.d * b.d) ELSE Val("int", a.n * b.n, 1, "")
    [] op = "/" -> IF b.n = 0 THEN Err("division by zero")
                   ELSE IF fl THEN Norm(a.n * b.d, a.d * b.n) ELSE Val("int", TDiv(a.n, b.n), 1, "")
    [] op = "%" -> IF AsInt(b) = 0 THEN Err("division by zero") ELSE Val("int", TMod(AsInt(a), AsInt(b)), 1, "")
    [] op = "^" -> \* always a float; in the model: small non-negative integer exponents, and halves (1/2, 3/2, -1/2) of perfect squares
                   IF b.d = 2 /\ b.n \in {1, 3, 0 - 1} /\ a.n >= 0 /\ IsSquare(a.n) /\ IsSquare(a.d)
                     THEN LET p == Sqrt(a.n) q == Sqrt(a.d) IN
                          (IF b.n = 1 THEN Norm(p, q) ELSE IF b.n = 3 THEN Norm(p * p * p, q * q * q)
                           ELSE IF p = 0 THEN Pruned ELSE Norm(q, p))
                   ELSE IF b.d # 1 \/ b.n < 0 \/ b.n > 5 \/ Abs(a.n) > 7 \/ a.d > 7 THEN Pruned       \* integral exponents (also integral floats: a^(b^c))
                   ELSE LET r == PowInt(a.n, a.d, b.n) IN Norm(r[1], r[2])

Text(v) == CASE v.k = "str" -> v.s [] v.k = "int" -> ToString(v.n) [] v.k = "bool" -> (IF v.n = 1 THEN "True" ELSE "False") [] OTHER -> "?"

RECURSIVE Eval(_)
Eval(t) ==
  CASE t.t = "lit" -> Val(t.k, t.n, t.d, t.s)
    [] t.t = "list" -> [k |-> "list", n |-> 0, d |-> 1, s |-> t.name, l |-> t.items]
    [] t.t = "neg" -> LET v == Eval(t.a) IN IF Bad(v) THEN v ELSE IF ~IsNum(v) THEN Err("negative sign on a non-number") ELSE Val(v.k, 0 - v.n, v.d, "")
    [] t.t = "not" -> LET v == Eval(t.a) IN IF Bad(v) THEN v ELSE IF v.k # "bool" THEN Pruned ELSE BoolV(v.n = 0)
    [] t.t = "bin" ->
        LET a == Eval(t.a) IN
        IF Bad(a) THEN a
        ELSE IF t.op = "and" THEN (IF ~Truthy(a) THEN BoolV(FALSE) ELSE LET b == Eval(t.b) IN IF Bad(b) THEN b ELSE BoolV(Truthy(b)))
        ELSE IF t.op = "or" THEN (IF Truthy(a) THEN BoolV(TRUE) ELSE LET b == Eval(t.b) IN IF Bad(b) THEN b ELSE BoolV(Truthy(b)))
        ELSE LET b == Eval(t.b) IN
             IF Bad(b) THEN b
             ELSE LET r ==
               CASE t.op \in {"*", "/", "%", "-", "^"} -> Arith(t.op, a, b)
                 [] t.op = "+" -> \* with a string involved: concatenation of the canonical forms
                                  IF a.k = "str" \/ b.k = "str" THEN
                                     (IF a.k = "float" \/ b.k = "float" \/ a.k = "list" \/ b.k = "list" THEN Pruned
                                      ELSE Val("str", 0, 1, Text(a) \o Text(b)))
                                  ELSE Arith("+", a, b)
                 [] t.op \in {"<", ">", "<=", ">="} ->
                      IF ~IsNum(a) \/ ~IsNum(b) THEN Pruned
                      ELSE BoolV(CASE t.op = "<" -> NumLess(a, b) [] t.op = ">" -> NumLess(b, a)
                                   [] t.op = "<=" -> ~NumLess(b, a) [] t.op = ">=" -> ~NumLess(a, b))
                 [] t.op \in {"==", "!="} ->
                      \* same-type comparison only (cross-type equality is outside the fragment)
                      IF a.k # b.k THEN Pruned
                      ELSE LET eq == IF IsNum(a) THEN NumEq(a, b) ELSE (a.n = b.n /\ a.s = b.s) IN BoolV(IF t.op = "==" THEN eq ELSE ~eq)
                 [] t.op = "in" -> IF b.k # "list" THEN Pruned
                                   ELSE BoolV(\E i \in 1..Len(b.l) : b.l[i].k = a.k /\ (IF IsNum(a) THEN NumEq(a, b.l[i]) ELSE a.s = b.l[i].s))
             IN IF TooBig(r) THEN Pruned ELSE r

----------------------------------------------------------------------------
(* canonical printing *)

RECURSIVE Decimals(_, _, _)
\* k decimal digits of rem/d (rem < d), as a tuple of digits
Decimals(rem, d, k) == IF k = 0 THEN <<>> ELSE <<(rem * 10) \div d>> \o Decimals((rem * 10) % d, d, k - 1)
RECURSIVE RemAfter(_, _, _)
RemAfter(rem, d, k) == IF k = 0 THEN rem ELSE RemAfter((rem * 10) % d, d, k - 1)

\* [sign, ip, digits (7), exact]: integer part, the first seven decimals and whether anything non-zero follows them
FloatParts(v) ==
  LET a == Abs(v.n) IN
  [neg |-> v.n < 0, ip |-> a \div v.d, digits |-> Decimals(a % v.d, v.d, 7), rest |-> RemAfter(a % v.d, v.d, 7) # 0]

\* the model's printed form: kind-tagged so that the harness formats it (and decides ties)
Canon(v) ==
  CASE v.k = "int" -> [k |-> "int", n |-> v.n]
    [] v.k = "bool" -> [k |-> "bool", n |-> v.n]
    [] v.k = "str" -> [k |-> "str", s |-> v.s]
    [] v.k = "float" -> [k |-> "float"] @@ FloatParts(v)
    [] v.k = "err" -> [k |-> "err", s |-> v.s]
    [] OTHER -> [k |-> v.k]

----------------------------------------------------------------------------
(* a precedence-climbing parser over Tokens(t): the printer is unambiguous iff Parse(Tokens(t)) = t *)

\* parser state: [pos, tree]; toks are the printed tokens
RECURSIVE PExpr(_, _), PRel(_, _), PSimple(_, _), PTerm(_, _), PPower(_, _), PFactor(_, _), PTermTail(_, _, _), PSimpleTail(_, _, _)
At(toks, i) == IF i <= Len(toks) THEN toks[i] ELSE "<eof>"
PFactor(toks, i) ==
  CASE At(toks, i) = "(" -> LET r == PExpr(toks, i + 1) IN [pos |-> r.pos + 1, tree |-> r.tree]
    [] At(toks, i) = "F" -> [pos |-> i + 3, tree |-> [t |-> "flt", n |-> toks[i + 1], d |-> toks[i + 2]]]
    [] At(toks, i) = "S" -> [pos |-> i + 2, tree |-> [t |-> "strl", s |-> toks[i + 1]]]
    [] OTHER -> [pos |-> i + 1, tree |-> [t |-> "atom", s |-> toks[i]]]
PPower(toks, i) ==
  LET a == PFactor(toks, i) IN
  IF At(toks, a.pos) = "^" THEN LET b == PPower(toks, a.pos + 1) IN [pos |-> b.pos, tree |-> [t |-> "bin", op |-> "^", a |-> a.tree, b |-> b.tree]]
  ELSE a
PTermTail(toks, i, left) ==
  IF At(toks, i) \in {"*", "/", "%"} THEN LET b == PPower(toks, i + 1) IN PTermTail(toks, b.pos, [t |-> "bin", op |-> toks[i], a |-> left, b |-> b.tree])
  ELSE [pos |-> i, tree |-> left]
PTerm(toks, i) == LET a == PPower(toks, i) IN PTermTail(toks, a.pos, a.tree)
PSimpleTail(toks, i, left) ==
  IF At(toks, i) \in {"+", "-"} THEN LET b == PTerm(toks, i + 1) IN PSimpleTail(toks, b.pos, [t |-> "bin", op |-> toks[i], a |-> left, b |-> b.tree])
  ELSE [pos |-> i, tree |-> left]
PSimple(toks, i) ==
  LET sign == At(toks, i) = "-" IN
  LET j == IF sign THEN i + 1 ELSE i IN
  LET neg == At(toks, j) = "not" IN
  LET k == IF neg THEN j + 1 ELSE j IN
  LET a == PTerm(toks, k) IN
  LET a1 == IF neg THEN [t |-> "not", a |-> a.tree] ELSE a.tree IN
  LET a2 == IF sign THEN [t |-> "neg", a |-> a1] ELSE a1 IN
  PSimpleTail(toks, a.pos, a2)
PRel(toks, i) ==
  LET a == PSimple(toks, i) IN
  IF At(toks, a.pos) \in {"==", "!=", "<", ">", "<=", ">=", "in"} THEN
     LET b == PSimple(toks, a.pos + 1) IN [pos |-> b.pos, tree |-> [t |-> "bin", op |-> toks[a.pos], a |-> a.tree, b |-> b.tree]]
  ELSE a
PExpr(toks, i) ==
  LET a == PRel(toks, i) IN
  IF At(toks, a.pos) \in {"and", "or"} THEN
     LET b == PExpr(toks, a.pos + 1) IN [pos |-> b.pos, tree |-> [t |-> "bin", op |-> toks[a.pos], a |-> a.tree, b |-> b.tree]]
  ELSE a

\* the tree in the parser's vocabulary
RECURSIVE Shape(_)
Shape(t) == CASE t.t = "list" -> [t |-> "atom", s |-> t.name]
              [] t.t = "lit" -> (CASE t.k = "float" -> [t |-> "flt", n |-> ToString(t.n), d |-> ToString(t.d)]
                                   [] t.k = "str" -> [t |-> "strl", s |-> t.s]
                                   [] t.k = "int" -> [t |-> "atom", s |-> ToString(t.n)]
                                   [] t.k = "bool" -> [t |-> "atom", s |-> IF t.n = 1 THEN "true" ELSE "false"])
              [] t.t = "bin" -> [t |-> "bin", op |-> t.op, a |-> Shape(t.a), b |-> Shape(t.b)]
              [] t.t = "neg" -> [t |-> "neg", a |-> Shape(t.a)]
              [] t.t = "not" -> [t |-> "not", a |-> Shape(t.a)]
Reparse(t) == LET toks == Tokens(t) IN LET r == PExpr(toks, 1) IN r.pos = Len(toks) + 1 /\ r.tree = Shape(t)
=============================================================================
