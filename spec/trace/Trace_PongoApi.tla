---------------------------- MODULE Trace_PongoApi ----------------------------
(***************************************************************************)
(* Validation of the worker's outcome log (C01): one line per API call of   *)
(* an isolated worker process - Source, CompileOk | CompileErr, then        *)
(* ExecOk | ExecErr per execution; the parent appends Panic / Died / Hang    *)
(* when the worker did not return an outcome.  Only PongoApi's actions can   *)
(* consume a line, so any other event rejects the trace.                    *)
(***************************************************************************)
EXTENDS PongoApi, Json
TraceLog == ndJsonDeserialize("trace_api.ndjson")
VARIABLE l
tvars == <<apiVars, genVars, l>>
IsEvent(e) == l <= Len(TraceLog) /\ TraceLog[l].ev = e /\ l' = l + 1
TraceInit == ApiInit /\ form = <<>> /\ steps = 0 /\ l = 1
TraceNext ==
  /\ UNCHANGED genVars
  /\ \/ IsEvent("Source") /\ NewSource
     \/ IsEvent("CompileOk") /\ Compile(TRUE)
     \/ IsEvent("CompileErr") /\ Compile(FALSE)
     \/ IsEvent("WarmOk") /\ Warm(TRUE)
     \/ IsEvent("WarmErr") /\ Warm(FALSE)
     \/ IsEvent("ExecOk") /\ Execute(TRUE)
     \/ IsEvent("ExecErr") /\ Execute(FALSE)
TraceSpec == TraceInit /\ [][TraceNext]_tvars
TraceAccepted ==
  LET d == TLCGet("stats").diameter - 1 IN
  IF d = Len(TraceLog) THEN TRUE
  ELSE Print(<<"TRACE-REJECTED matched", d, "of", Len(TraceLog), "next", IF d < Len(TraceLog) THEN TraceLog[d + 1] ELSE "-">>, FALSE)
=============================================================================
