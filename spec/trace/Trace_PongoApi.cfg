SPECIFICATION TraceSpec
CONSTANTS
  RegTags = {}
  RegFilters = {}
  CtxNames = {}
  Budget = 0
INVARIANTS OutcomeTotal
POSTCONDITION TraceAccepted
CHECK_DEADLOCK FALSE
