--------------------------- MODULE Trace_PongoLexer ---------------------------
(***************************************************************************)
(* Trace validation of the real lexer (C06, C15, C16).  The harness lexes   *)
(* real-world sources (the repository's fixtures, README, fuzz corpus,      *)
(* random programs) with the real lexer and logs                            *)
(*    Begin{src}  Tok{typ,val,line,col,trim}*  (End | LexErr{line,col})     *)
(* The specification re-lexes the logged bytes with its own actions (silent *)
(* steps) and consumes a Tok event only when its next own token is equal    *)
(* in type, value, position and trim flag.  Acceptance: the whole log was   *)
(* consumed (high-water mark of l, see Trace_PongoLexer.cfg).               *)
(***************************************************************************)
EXTENDS PongoLexer, Json

TraceLog == ndJsonDeserialize("trace_lex.ndjson")

VARIABLES l,   \* next line of the log
          k    \* tokens of the current source already matched

tvars == <<lexVars, l, k>>
ev == TraceLog[l]
IsEvent(e) == l <= Len(TraceLog) /\ TraceLog[l].ev = e /\ l' = l + 1

TraceInit == LexInit(<<>>) /\ l = 1 /\ k = 0 /\ TLCSet(1, 0)

TrBegin ==
  /\ IsEvent("Begin")
  /\ mode = "done"
  /\ LexReset(ev.src)
  /\ k' = 0

TrTok ==
  /\ IsEvent("Tok")
  /\ k < Len(tokens)
  /\ LET t == tokens[k + 1] IN
       /\ t.typ = ev.typ /\ t.val = ev.val
       /\ t.line = ev.line /\ t.col = ev.col
       /\ t.trim = ev.trim
  /\ k' = k + 1
  /\ UNCHANGED lexVars

TrEnd ==
  /\ IsEvent("End")
  /\ mode = "done" /\ err = NoErr /\ k = Len(tokens)
  /\ UNCHANGED <<lexVars, k>>

TrErr ==
  /\ IsEvent("LexErr")
  /\ mode = "done" /\ err # NoErr
  /\ err.line = ev.line /\ err.col = ev.col
  /\ UNCHANGED <<lexVars, k>>

\* the specification's lexer only runs when every token it has emitted so far has been matched: the search is a line
\* (a failed lexing run logs no tokens, only the error: then the specification runs to its own verdict)
Silent == /\ (k = Len(tokens) \/ (l <= Len(TraceLog) /\ TraceLog[l].ev = "LexErr"))
          /\ LexNext /\ UNCHANGED <<l, k>>

TraceNext == TrBegin \/ TrTok \/ TrEnd \/ TrErr \/ Silent
TraceSpec == TraceInit /\ [][TraceNext]_tvars

HighWater == TLCSet(1, IF l > TLCGet(1) THEN l ELSE TLCGet(1))
TraceAccepted ==
  LET d == TLCGet(1) IN
  IF d = Len(TraceLog) + 1 THEN TRUE
  ELSE Print(<<"TRACE-REJECTED matched", d - 1, "of", Len(TraceLog), "next",
               IF d <= Len(TraceLog) THEN [x \in (DOMAIN TraceLog[d]) \ {"src"} |-> TraceLog[d][x]] ELSE "-">>, FALSE)
=============================================================================
