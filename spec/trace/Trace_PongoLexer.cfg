SPECIFICATION TraceSpec
CONSTRAINT HighWater
INVARIANTS HtmlExact TrimFlags
POSTCONDITION TraceAccepted
CHECK_DEADLOCK FALSE
