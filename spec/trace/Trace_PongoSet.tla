--------------------------- MODULE Trace_PongoSet ---------------------------
(***************************************************************************)
(* TraceLog validation for the template cache (C20, C05).                      *)
(* The trace is the linearized event log of free-running goroutines calling *)
(* FromCache / CleanCache on shared sets (harness: pvh c20-free).  Cache    *)
(* events are emitted by hooks *while the cache mutex is held*, loader      *)
(* reads and file changes are logged atomically with the read/change, so   *)
(* the log order is the real order.  Every event is mapped to the PongoSet  *)
(* action taken at that point; the logged fields are checked against the    *)
(* state the specification predicts.  All PongoSet invariants are evaluated *)
(* in every state of the trace.                                            *)
(***************************************************************************)
EXTENDS PongoSet, Json

TraceLog == ndJsonDeserialize("trace_c20.ndjson")

VARIABLES l,      \* next trace line
          idmap,  \* spec template id -> identity observed in the implementation
          needObs, \* thread -> a load was made inside the critical section: its outcome (CacheStore / CacheMissFail) must be logged before the unlock
          needRet  \* thread -> FromCache left its critical section: its return (Ret) must be logged before the thread's next call

TrThreads == {"t1","t2","t3","t4","t5","t6","t7","t8","t9","t10","t11","t12","t13","t14","t15","t16"}
TrSets == {"s1", "s2"}
TrNames == {"a", "b"}

tvars == <<vars, l, idmap, needObs, needRet>>

ev == TraceLog[l]
IsEvent(e) == l <= Len(TraceLog) /\ TraceLog[l].ev = e /\ l' = l + 1
Stutter == UNCHANGED vars
Fresh(id) == \A i \in 1..Len(idmap) : idmap[i] # id

NoNeed == [t \in TrThreads |-> FALSE]
TraceInit == Init /\ file = [n \in Names |-> 0] /\ l = 1 /\ idmap = <<>> /\ needObs = NoNeed /\ needRet = NoNeed

TrReset == IsEvent("Reset") /\ Reset([n \in Names |-> ev.init[n]]) /\ idmap' = <<>> /\ needObs' = NoNeed /\ needRet' = NoNeed

TrCall ==
  /\ IsEvent("Call")
  /\ pc[ev.th] = "idle" /\ ~needRet[ev.th]
  /\ IF debug[ev.set] THEN Stutter ELSE FcBegin(ev.th, ev.set, ev.name)
  \* (with Debug on the call must log that it went past the cache before it loads)
  /\ needObs' = IF debug[ev.set] THEN [needObs EXCEPT ![ev.th] = TRUE] ELSE needObs
  /\ UNCHANGED <<idmap, needRet>>

TrCallClean ==
  /\ IsEvent("CallClean") /\ ~needRet[ev.th]
  /\ CcBegin(ev.th, ev.set, IF ev.all = 1 THEN CHOOSE n \in Names : TRUE ELSE ev.name, ev.all = 1, FALSE)
  /\ UNCHANGED <<idmap, needObs, needRet>>

TrLock ==
  /\ IsEvent("CacheLock")
  /\ IF ev.all = 1 THEN CcLock(ev.th) ELSE FcLock(ev.th)
  /\ cur[ev.th].s = ev.set
  /\ UNCHANGED <<idmap, needObs, needRet>>

\* a loader read: inside the critical section it is the miss branch of FcCrit; outside, it is the
\* Debug bypass.  A read while the entry is cached matches neither (CompileOnce).
TrGet ==
  /\ IsEvent("Get")
  /\ file[ev.name] = ev.ver
  /\ IF pc[ev.th] = "fccrit"
       THEN /\ cur[ev.th].s = ev.set /\ cur[ev.th].n = ev.name
            /\ cache[ev.set][ev.name] = 0
            /\ FcCrit(ev.th)
       ELSE /\ pc[ev.th] = "idle" /\ debug[ev.set] /\ ~needObs[ev.th]
            /\ FcBegin(ev.th, ev.set, ev.name)
  /\ needObs' = IF pc[ev.th] = "fccrit" THEN [needObs EXCEPT ![ev.th] = TRUE] ELSE needObs
  /\ UNCHANGED needRet
  /\ IF ev.ver # 0
       THEN /\ Fresh(ev.id) /\ ev.id # 0
            /\ idmap' = Append(idmap, ev.id)
       ELSE UNCHANGED idmap

TrHit ==
  /\ IsEvent("CacheHit")
  /\ pc[ev.th] = "fccrit" /\ cur[ev.th].s = ev.set /\ cur[ev.th].n = ev.name
  /\ cache[ev.set][ev.name] # 0
  /\ idmap[cache[ev.set][ev.name]] = ev.id
  /\ FcCrit(ev.th)
  /\ UNCHANGED <<idmap, needObs, needRet>>

TrStore ==
  /\ IsEvent("CacheStore")
  /\ pc[ev.th] = "fcunlock" /\ cur[ev.th].s = ev.set /\ cur[ev.th].n = ev.name
  /\ cur[ev.th].res # 0 /\ idmap[cur[ev.th].res] = ev.id
  /\ cache[ev.set][ev.name] = cur[ev.th].res
  /\ Stutter /\ UNCHANGED <<idmap, needRet>> /\ needObs' = [needObs EXCEPT ![ev.th] = FALSE]

TrMissFail ==
  /\ IsEvent("CacheMissFail")
  /\ pc[ev.th] = "fcunlock" /\ cur[ev.th].s = ev.set /\ cur[ev.th].n = ev.name
  /\ cur[ev.th].res = 0
  /\ Stutter /\ UNCHANGED <<idmap, needRet>> /\ needObs' = [needObs EXCEPT ![ev.th] = FALSE]

TrBypass ==
  /\ IsEvent("CacheBypass")
  /\ pc[ev.th] = "idle" /\ debug[ev.set]
  /\ Stutter /\ UNCHANGED <<idmap, needRet>> /\ needObs' = [needObs EXCEPT ![ev.th] = FALSE]

TrCleanCall ==
  /\ IsEvent("CacheCleanCall")
  /\ pc[ev.th] = "cccrit" /\ cur[ev.th].s = ev.set
  /\ cur[ev.th].all = (ev.all = 1)
  /\ IF ev.all = 1 THEN CcCrit(ev.th) ELSE Stutter
  /\ UNCHANGED <<idmap, needObs, needRet>>

TrClean ==
  /\ IsEvent("CacheClean")
  /\ cur[ev.th].s = ev.set /\ cur[ev.th].n = ev.name /\ ~cur[ev.th].all
  /\ CcCrit(ev.th)
  /\ UNCHANGED <<idmap, needObs, needRet>>

TrUnlock ==
  /\ IsEvent("CacheUnlock")
  /\ cur[ev.th].s = ev.set
  /\ IF ev.all = 1 THEN CcUnlock(ev.th) ELSE FcUnlock(ev.th)
  /\ ~needObs[ev.th]
  /\ needRet' = IF ev.all = 1 THEN needRet ELSE [needRet EXCEPT ![ev.th] = TRUE]
  /\ UNCHANGED <<idmap, needObs>>

\* the value handed back to the caller is the one fixed at the call's linearization point
LastOf(t) == LET I == {i \in 1..Len(hist) : hist[i].t = t} IN
             hist[CHOOSE i \in I : \A j \in I : j <= i]
TrRet ==
  /\ IsEvent("Ret")
  /\ pc[ev.th] = "idle"
  /\ LET h == LastOf(ev.th) IN
       /\ h.op = "FromCache" /\ h.s = ev.set /\ h.n = ev.name
       /\ (ev.id = 0) <=> (h.res = 0)
       /\ h.res # 0 => (idmap[h.res] = ev.id /\ h.ver = ev.ver)
  /\ Stutter /\ UNCHANGED <<idmap, needObs>> /\ needRet' = [needRet EXCEPT ![ev.th] = FALSE]

TrSetDebug ==
  /\ IsEvent("SetDebug")
  /\ SetDebug(ev.set, ev.all = 1)
  /\ UNCHANGED <<idmap, needObs, needRet>>

TrChangeFile ==
  /\ IsEvent("ChangeFile")
  /\ IF file[ev.name] = ev.ver THEN Stutter ELSE ChangeFile(ev.name, ev.ver)
  /\ UNCHANGED <<idmap, needObs, needRet>>

TraceNext ==
  \/ TrReset \/ TrCall \/ TrCallClean \/ TrLock \/ TrGet \/ TrHit \/ TrStore \/ TrMissFail
  \/ TrBypass \/ TrCleanCall \/ TrClean \/ TrUnlock \/ TrRet \/ TrSetDebug \/ TrChangeFile

TraceSpec == TraceInit /\ [][TraceNext]_tvars

TraceAccepted ==
  LET d == TLCGet("stats").diameter - 1 IN
  IF d = Len(TraceLog) THEN TRUE
  ELSE Print(<<"TRACE-REJECTED matched", d, "of", Len(TraceLog), "next", IF d < Len(TraceLog) THEN TraceLog[d + 1] ELSE "-">>, FALSE)
=============================================================================
