SPECIFICATION TraceSpec
CONSTANTS
  Threads <- TrThreads
  Sets <- TrSets
  Names <- TrNames
  MaxVer = 2
  MaxOps = 1000000
  MaxEnv = 1000000
  Vocab = {}
INVARIANTS MutexDiscipline CompileOnce CacheSound
POSTCONDITION TraceAccepted
CHECK_DEADLOCK FALSE
