------------------------------- MODULE PongoFilters -------------------------------
(***************************************************************************)
(* Reference definitions of the built-in filters (C17 escaping filters,     *)
(* C18 data filters, spaceless for C15).  A string is a tuple of atoms; an  *)
(* atom is one character: a printable ASCII character as itself, or a name  *)
(* for anything else ("NL", "CR", "TAB", "EACUTE" = U+00E9, "EURO" = U+20AC, *)
(* "CJK" = U+4F60, "EMOJI" = U+1F600, "FFFD" = U+FFFD, "BAD" = a byte that   *)
(* is not valid UTF-8).  Lengths, widths and indexes count atoms, i.e.      *)
(* characters - never bytes.  Values have the shape of PongoRender.         *)
(***************************************************************************)
EXTENDS PongoRender

----------------------------------------------------------------------------
(* C18: sequences *)

RECURSIVE Flatten3(_)
Flatten3(ss) == IF ss = <<>> THEN <<>> ELSE Head(ss) \o Flatten3(Tail(ss))
NoneB == 999          \* an omitted slice bound

Min2(a, b) == IF a < b THEN a ELSE b
Max2(a, b) == IF a > b THEN a ELSE b
Sub(s, from, to) == IF to < from THEN <<>> ELSE SubSeq(s, from, to)       \* 1-based inclusive

\* Python's s[a:b] on a sequence of length n; a, b are integers or NoneB (omitted)
SliceBounds(n, a, b) ==
  LET norm(x, dflt) == IF x = NoneB THEN dflt ELSE IF x < 0 THEN Max2(n + x, 0) ELSE Min2(x, n) IN
  LET lo == norm(a, 0) hi == norm(b, n) IN <<lo, Max2(hi, lo)>>
PySlice(s, a, b) == LET r == SliceBounds(Len(s), a, b) IN Sub(s, r[1] + 1, r[2])

IsWS(a) == a \in {" ", "NL", "TAB", "CR"}
RECURSIVE Words(_, _, _)
\* split on runs of white space (like Python's split() / Go's strings.Fields)
Words(s, cur, acc) ==
  IF s = <<>> THEN (IF cur = <<>> THEN acc ELSE Append(acc, cur))
  ELSE IF IsWS(Head(s)) THEN Words(Tail(s), <<>>, IF cur = <<>> THEN acc ELSE Append(acc, cur))
  ELSE Words(Tail(s), Append(cur, Head(s)), acc)
RECURSIVE JoinWith(_, _)
JoinWith(parts, sep) == IF parts = <<>> THEN <<>> ELSE IF Len(parts) = 1 THEN parts[1] ELSE parts[1] \o sep \o JoinWith(Tail(parts), sep)
Spaces(n) == [i \in 1..n |-> " "]
RECURSIVE SplitOn(_, _, _, _)
\* split s on the single-atom separator c
SplitOn(s, c, cur, acc) == IF s = <<>> THEN Append(acc, cur)
                           ELSE IF Head(s) = c THEN SplitOn(Tail(s), c, <<>>, Append(acc, cur))
                           ELSE SplitOn(Tail(s), c, Append(cur, Head(s)), acc)

ErrV(msg) == V("error", 0, <<msg>>, <<>>)

\* ---- numbers with a fractional part: a "fix" value carries thousandths (n = 1250 is 1.25)
Fix(n) == V("fix", n, <<>>, <<>>)
AbsI(n) == IF n < 0 THEN 0 - n ELSE n
RECURSIVE Pow10(_)
Pow10(k) == IF k <= 0 THEN 1 ELSE 10 * Pow10(k - 1)
ZeroPad(ds, w) == [i \in 1..(w - Len(ds)) |-> "0"] \o ds
\* thousandths of the number a value converts to (Value.Float): text that is not a number, nil, booleans, sequences are 0
ThousandthsOf(v) == CASE v.k = "fix" -> v.n [] v.k = "int" -> v.n * 1000 [] OTHER -> 0
\* decimal notation with d places, correctly rounded, ties to even (the value is exact when it is a multiple of 1/8)
FmtFix(n, d) ==
  LET m == AbsI(n) IN
  LET q == IF d >= 3 THEN m * Pow10(d - 3)
           ELSE LET u == Pow10(3 - d) IN LET qq == m \div u r == m % u IN
                IF 2 * r > u \/ (2 * r = u /\ qq % 2 = 1) THEN qq + 1 ELSE qq IN
  (IF n < 0 THEN <<"-">> ELSE <<>>) \o NatStr(q \div Pow10(d)) \o (IF d = 0 THEN <<>> ELSE <<".">> \o ZeroPad(NatStr(q % Pow10(d)), d))
\* a tie that binary floating point cannot represent exactly has no settled rounding: such inputs are not generated
UnsettledTie(n, d) == d < 3 /\ 2 * (AbsI(n) % Pow10(3 - d)) = Pow10(3 - d) /\ n % 125 # 0
\* integer written in a string ("-3"): optional sign and digits, anything else is 0
DigitVal(c) == CASE c = "0" -> 0 [] c = "1" -> 1 [] c = "2" -> 2 [] c = "3" -> 3 [] c = "4" -> 4 [] c = "5" -> 5 [] c = "6" -> 6 [] c = "7" -> 7
                 [] c = "8" -> 8 [] c = "9" -> 9 [] OTHER -> 0 - 1
RECURSIVE ParseNat(_, _)
ParseNat(s, acc) == IF s = <<>> THEN acc ELSE IF DigitVal(Head(s)) < 0 \/ acc < 0 THEN 0 - 1 ELSE ParseNat(Tail(s), acc * 10 + DigitVal(Head(s)))
ParseInt(s) == IF s = <<>> THEN 0
               ELSE IF Head(s) = "-" THEN (IF Tail(s) = <<>> \/ ParseNat(Tail(s), 0) < 0 THEN 0 ELSE 0 - ParseNat(Tail(s), 0))
               ELSE IF ParseNat(s, 0) < 0 THEN 0 ELSE ParseNat(s, 0)
ArgInt(a) == CASE a.k = "int" -> a.n [] a.k = "str" -> ParseInt(a.s) [] a.k = "fix" -> (IF a.n < 0 THEN 0 - (AbsI(a.n) \div 1000) ELSE a.n \div 1000) [] OTHER -> 0
\* the integer a value stands for where a filter wants one: a number written in a string counts, in base ten whatever
\* zeros it starts with ("010" is ten)
IntOf(v) == ArgInt(v)
\* floatformat: no argument = one place, trimmed; n > 0 = exactly n places; n <= 0 or a non-numeric argument = |n| places, trimmed
\* (trimmed: a whole number is given as an integer)
FloatFormat(v, a) ==
  LET val == ThousandthsOf(v) IN
  LET d0 == IF a.k = "nil" THEN 0 - 1 ELSE ArgInt(a) IN
  LET trim == (a.k \notin {"int", "fix"}) \/ d0 <= 0 IN
  LET d == AbsI(d0) IN
  IF trim /\ val % 1000 = 0 THEN I(IF val < 0 THEN 0 - (AbsI(val) \div 1000) ELSE val \div 1000)
  ELSE IF d > 1000 THEN ErrV("too many decimals")
  ELSE S(FmtFix(val, d))
\* stringformat: the verbs the documentation names, with width and flags ( %d %5d %-4d %03d %s %5s %-4s %v and literal text around them)
\* spec: [pre, flag \in {"", "-", "0"}, width, verb \in {"d", "s", "v"}, post]
PadTo(body, width, flag) ==
  IF Len(body) >= width THEN body
  ELSE IF flag = "-" THEN body \o Spaces(width - Len(body))
  ELSE IF flag = "0" /\ body # <<>> /\ Head(body) = "-" THEN <<"-">> \o ZeroPad(Tail(body), width - 1)
  ELSE IF flag = "0" THEN ZeroPad(body, width)                    \* (Go pads text with zeros as well)
  ELSE Spaces(width - Len(body)) \o body
StringFormat(v, spec) ==
  S(spec.pre \o PadTo(StrOf(v), spec.width, spec.flag) \o spec.post)
\* date / time: only a point in time can be formatted; the layout is Go's reference-time notation, token by token
\* instants: 1 = 2006-01-02 15:04:05 UTC (the reference time itself), 2 = 1999-12-31 23:59:58 UTC
Instant(i) == V("time", i, <<>>, <<>>)
LayoutTok(i, tok) ==
  CASE tok = "2006" -> (IF i = 1 THEN <<"2", "0", "0", "6">> ELSE <<"1", "9", "9", "9">>)
    [] tok = "01" -> (IF i = 1 THEN <<"0", "1">> ELSE <<"1", "2">>)
    [] tok = "02" -> (IF i = 1 THEN <<"0", "2">> ELSE <<"3", "1">>)
    [] tok = "15" -> (IF i = 1 THEN <<"1", "5">> ELSE <<"2", "3">>)
    [] tok = "04" -> (IF i = 1 THEN <<"0", "4">> ELSE <<"5", "9">>)
    [] tok = "05" -> (IF i = 1 THEN <<"0", "5">> ELSE <<"5", "8">>)
    [] tok = "Jan" -> (IF i = 1 THEN <<"J", "a", "n">> ELSE <<"D", "e", "c">>)
    [] tok = "Mon" -> (IF i = 1 THEN <<"M", "o", "n">> ELSE <<"F", "r", "i">>)
    [] tok = "PM" -> <<"P", "M">>
    [] tok = "3" -> (IF i = 1 THEN <<"3">> ELSE <<"1", "1">>)
    [] OTHER -> <<tok>>                    \* anything else stands for itself
DateFormat(v, layout) == IF v.k # "time" THEN ErrV("not a time") ELSE S(Flatten3([j \in 1..Len(layout) |-> LayoutTok(v.n, layout[j])]))

\* title: every letter that starts a word in upper case, every other letter in lower case; a word starts after anything
\* that is not a letter, a digit or an underscore
IsWordAtom(a) == UpAtom(a) # a \/ LoAtom(a) # a \/ a \in {"0", "1", "2", "3", "4", "5", "6", "7", "8", "9", "_", "CJK"}
Title(s) == [i \in 1..Len(s) |-> IF i = 1 \/ ~IsWordAtom(s[i - 1]) THEN UpAtom(LoAtom(s[i])) ELSE LoAtom(s[i])]
\* phone2numeric: the letters of a telephone keypad, either case; everything else stays
PhoneDigit(a) == LET l == LoAtom(a) IN
  CASE l \in {"a", "b", "c"} -> "2" [] l \in {"d", "e", "f"} -> "3" [] l \in {"g", "h", "i"} -> "4" [] l \in {"j", "k", "l"} -> "5"
    [] l \in {"m", "n", "o"} -> "6" [] l \in {"p", "q", "r", "s"} -> "7" [] l \in {"t", "u", "v"} -> "8" [] l \in {"w", "x", "y", "z"} -> "9"
    [] OTHER -> a
\* linebreaks (pongo2's own reading): lines are joined by <br />, a blank line after a non-blank one closes the paragraph,
\* the next line opens a new one; everything sits in <p>...</p>
Blank(line) == \A i \in 1..Len(line) : IsWS(line[i])
TagP == <<"<", "p", ">">>  TagPEnd == <<"<", "/", "p", ">">>  TagBr == <<"<", "b", "r", " ", "/", ">">>
RECURSIVE LinebreaksFrom(_, _, _)
LinebreaksFrom(lines, i, opened) ==
  IF i > Len(lines) THEN (IF opened THEN TagPEnd ELSE <<>>)
  ELSE LET start == IF opened THEN <<>> ELSE TagP IN
       LET more == i < Len(lines) /\ ~Blank(lines[i]) IN
       LET closes == more /\ Blank(lines[i + 1]) IN
       start \o lines[i] \o (IF closes THEN TagPEnd ELSE IF more THEN TagBr ELSE <<>>) \o LinebreaksFrom(lines, i + 1, ~closes)
Linebreaks(lines) == LinebreaksFrom(lines, 1, FALSE)

\* FilterRef(f, v, a): the reference result of v|f:a  (a = Nil when no argument is written)
FilterRef(f, v, a) ==
  CASE f = "slice" ->      \* a = pair value P(lo, hi), each an int value or Nil for an omitted bound
         LET lo == IF a.l[1].k = "nil" THEN NoneB ELSE a.l[1].n
             hi == IF a.l[2].k = "nil" THEN NoneB ELSE a.l[2].n IN
         IF v.k = "str" THEN S(PySlice(v.s, lo, hi)) ELSE IF v.k = "list" THEN L(PySlice(v.l, lo, hi)) ELSE v
    [] f = "first" -> IF v.k = "str" THEN (IF v.s = <<>> THEN S(<<>>) ELSE S(<<v.s[1]>>))
                      ELSE IF v.k = "list" THEN (IF v.l = <<>> THEN S(<<>>) ELSE v.l[1]) ELSE S(<<>>)
    [] f = "last" -> IF v.k = "str" THEN (IF v.s = <<>> THEN S(<<>>) ELSE S(<<v.s[Len(v.s)]>>))
                     ELSE IF v.k = "list" THEN (IF v.l = <<>> THEN S(<<>>) ELSE v.l[Len(v.l)]) ELSE S(<<>>)
    [] f = "length" -> I(CASE v.k = "str" -> Len(v.s) [] v.k \in {"list", "map"} -> Len(v.l) [] OTHER -> 0)
    [] f = "length_is" -> B((CASE v.k = "str" -> Len(v.s) [] v.k \in {"list", "map"} -> Len(v.l) [] OTHER -> 0) = IntOf(a))
    [] f = "join" -> IF v.k = "list" THEN S(JoinWith([i \in 1..Len(v.l) |-> StrOf(v.l[i])], StrOf(a)))
                     ELSE IF v.k = "str" THEN S(JoinWith([i \in 1..Len(v.s) |-> <<v.s[i]>>], StrOf(a))) ELSE v
    [] f = "make_list" -> L([i \in 1..Len(StrOf(v)) |-> S(<<StrOf(v)[i]>>)])
    [] f = "split" -> L([i \in 1..Len(SplitOn(StrOf(v), StrOf(a)[1], <<>>, <<>>)) |-> S(SplitOn(StrOf(v), StrOf(a)[1], <<>>, <<>>)[i])])
    [] f = "cut" -> S(RemoveSub(StrOf(v), StrOf(a)))
    [] f = "truncatechars" ->
         LET n == IntOf(a) s == StrOf(v) IN
         IF n <= 0 \/ Len(s) <= n THEN S(s)
         ELSE IF n >= 3 THEN S(Sub(s, 1, n - 3) \o <<".", ".", ".">>) ELSE S(Sub(s, 1, n))
    [] f = "truncatewords" ->
         LET n == IntOf(a) w == Words(StrOf(v), <<>>, <<>>) IN
         IF n <= 0 THEN S(<<>>)
         ELSE IF Len(w) <= n THEN S(JoinWith(w, <<" ">>)) ELSE S(JoinWith(Sub(w, 1, n), <<" ">>) \o <<" ", ".", ".", ".">>)
    [] f = "center" -> LET w == IntOf(a) s == StrOf(v) pad == w - Len(s) IN
                       IF pad <= 0 THEN S(s) ELSE S(Spaces((pad + 1) \div 2) \o s \o Spaces(pad \div 2))
    [] f = "ljust" -> LET pad == IntOf(a) - Len(StrOf(v)) IN S(StrOf(v) \o Spaces(Max2(pad, 0)))
    [] f = "rjust" -> LET pad == IntOf(a) - Len(StrOf(v)) IN S(Spaces(Max2(pad, 0)) \o StrOf(v))
    [] f = "wordcount" -> I(Len(Words(StrOf(v), <<>>, <<>>)))
    [] f = "wordwrap" ->     \* pongo2's own reading (pinned by its fixture): n words per line
         LET n == IntOf(a) w == Words(StrOf(v), <<>>, <<>>) IN
         IF n <= 0 THEN v
         ELSE LET nl == (Len(w) + n - 1) \div n IN
              S(JoinWith([i \in 1..nl |-> JoinWith(Sub(w, (i - 1) * n + 1, Min2(i * n, Len(w))), <<" ">>)], <<"NL">>))
    [] f = "linenumbers" ->
         LET ls == SplitOn(StrOf(v), "NL", <<>>, <<>>) IN
         S(JoinWith([i \in 1..Len(ls) |-> IntStr(i) \o <<".", " ">> \o ls[i]], <<"NL">>))
    [] f = "linebreaksbr" ->
         LET ls == SplitOn(StrOf(v), "NL", <<>>, <<>>) IN S(JoinWith(ls, <<"<", "b", "r", " ", "/", ">">>))
    [] f = "capfirst" -> IF StrOf(v) = <<>> \/ v.k # "str" THEN S(<<>>) ELSE S(<<UpAtom(v.s[1])>> \o Tail(v.s))
    [] f = "upper" -> S([i \in 1..Len(StrOf(v)) |-> UpAtom(StrOf(v)[i])])
    [] f = "lower" -> S([i \in 1..Len(StrOf(v)) |-> LoAtom(StrOf(v)[i])])
    [] f = "add" -> IF v.k = "int" /\ a.k = "int" THEN I(v.n + a.n) ELSE S(StrOf(v) \o StrOf(a))
    [] f = "divisibleby" -> B(IntOf(a) # 0 /\ IntOf(v) % (IF IntOf(a) = 0 THEN 1 ELSE IF IntOf(a) < 0 THEN 0 - IntOf(a) ELSE IntOf(a)) = 0)
    [] f = "get_digit" ->    \* n-th digit from the right of an integer as it is written (the digits of a negative number are those of
                             \* its absolute value; the position of the sign itself is not settled and not generated); anything else: the input
         LET n == IntOf(a) m == IF v.k = "int" /\ v.n < 0 THEN 0 - v.n ELSE v.n d == IntStr(m) IN
         IF v.k # "int" \/ n < 1 \/ n > Len(d) THEN v ELSE I((m \div (10 ^ (n - 1))) % 10)
    [] f = "pluralize" ->    \* a: "" (default s), "es", or "y,ies"
         \* (singular for exactly one: 1 and 1.0, not 1.5)
         IF v.k \notin {"int", "fix"} THEN ErrV("pluralize works on numbers")
         ELSE LET parts == SplitOn(StrOf(a), ",", <<>>, <<>>) one == (v.k = "int" /\ v.n = 1) \/ (v.k = "fix" /\ v.n = 1000) IN
              IF StrOf(a) = <<>> THEN S(IF one THEN <<>> ELSE <<"s">>)
              ELSE IF Len(parts) > 2 THEN ErrV("pluralize takes at most 2 forms")
              ELSE IF Len(parts) = 1 THEN S(IF one THEN <<>> ELSE parts[1])
              ELSE S(IF one THEN parts[1] ELSE parts[2])
    [] f = "yesno" ->
         LET parts == IF StrOf(a) = <<>> THEN <<<<"y", "e", "s">>, <<"n", "o">>, <<"m", "a", "y", "b", "e">>>> ELSE SplitOn(StrOf(a), ",", <<>>, <<>>) IN
         IF Len(parts) < 2 \/ Len(parts) > 3 THEN ErrV("yesno takes 2 or 3 choices")
         ELSE IF v.k = "nil" THEN S(IF Len(parts) = 3 THEN parts[3] ELSE <<"m", "a", "y", "b", "e">>)
         ELSE S(IF Truthy(v) THEN parts[1] ELSE parts[2])
    [] f = "default" -> IF Truthy(v) THEN v ELSE a
    [] f = "default_if_none" -> IF v.k = "nil" THEN a ELSE v
    [] f = "integer" -> I(IF v.k = "fix" THEN (IF v.n < 0 THEN 0 - (AbsI(v.n) \div 1000) ELSE v.n \div 1000) ELSE IntOf(v))
    [] f = "safe" -> v
    [] f = "title" -> IF v.k # "str" THEN S(<<>>) ELSE S(Title(v.s))
    [] f = "phone2numeric" -> S([i \in 1..Len(StrOf(v)) |-> PhoneDigit(StrOf(v)[i])])
    [] f = "linebreaks" -> IF v.k = "str" /\ v.s = <<>> THEN v ELSE S(Linebreaks(SplitOn(StrOf(v), "NL", <<>>, <<>>)))
    [] f = "floatformat" -> FloatFormat(v, a)
    [] f = "float" -> Fix(ThousandthsOf(v))
    [] OTHER -> ErrV("no reference")

\* widthratio value max width: round(value / max * width) to the nearest integer (an exact half either way: flagged)
WidthRatio(v, m, w) ==
  IF m = 0 THEN [lo |-> 0, hi |-> 0] ELSE      \* (no ratio to a maximum of 0: the reference prints 0)
  LET num == AbsI(v * w) IN LET q == num \div m r == num % m IN
  LET lo == IF 2 * r > m THEN q + 1 ELSE q  hi == IF 2 * r >= m THEN q + 1 ELSE q IN
  \* (a negative ratio rounds like its absolute value, away from zero at a half)
  IF v * w >= 0 THEN [lo |-> lo, hi |-> hi] ELSE [lo |-> 0 - hi, hi |-> 0 - lo]

\* ---- shape properties (checked by TLC on every generated input)
IsSubSeqContig(r, s) == \E i \in 0..Len(s) : \E j \in i..Len(s) : r = Sub(s, i + 1, j)
SliceShape(s, a, b) == IsSubSeqContig(PySlice(s, a, b), s)
PadShape(f, s, w) ==
  LET r == StrOf(FilterRef(f, S(s), I(w))) IN
  /\ Len(r) = Max2(Len(s), w)
  /\ IsSubSeqContig(s, r)
  /\ \A i \in 1..Len(r) : (r[i] # " ") => (\E j \in 1..Len(s) : TRUE)
TruncShape(s, n) ==
  LET r == StrOf(FilterRef("truncatechars", S(s), I(n))) IN
  (n > 0) => Len(r) <= Max2(n, 0) \/ Len(s) <= n

----------------------------------------------------------------------------
(* C17: escaping filters as per-character transducers.  Class(a) drives them. *)

Letters == {"a", "b", "z", "A", "Z"}
DigitsA == {"0", "7"}
HtmlSpecial == {"&", "<", ">", "\"", "'"}

EscapeAtom(a) == CASE a = "&" -> <<"&", "a", "m", "p", ";">> [] a = "<" -> <<"&", "l", "t", ";">> [] a = ">" -> <<"&", "g", "t", ";">>
                   [] a = "\"" -> <<"&", "q", "u", "o", "t", ";">> [] a = "'" -> <<"&", "#", "3", "9", ";">> [] OTHER -> <<a>>
Escape(s) == Flatten3([i \in 1..Len(s) |-> EscapeAtom(s[i])])

\* HTML-unescape of the five entities (for the Decodes invariant)
RECURSIVE Unescape(_)
Unescape(s) ==
  IF s = <<>> THEN <<>>
  ELSE IF Len(s) >= 5 /\ SubSeq(s, 1, 5) = <<"&", "a", "m", "p", ";">> THEN <<"&">> \o Unescape(SubSeq(s, 6, Len(s)))
  ELSE IF Len(s) >= 4 /\ SubSeq(s, 1, 4) = <<"&", "l", "t", ";">> THEN <<"<">> \o Unescape(SubSeq(s, 5, Len(s)))
  ELSE IF Len(s) >= 4 /\ SubSeq(s, 1, 4) = <<"&", "g", "t", ";">> THEN <<">">> \o Unescape(SubSeq(s, 5, Len(s)))
  ELSE IF Len(s) >= 6 /\ SubSeq(s, 1, 6) = <<"&", "q", "u", "o", "t", ";">> THEN <<"\"">> \o Unescape(SubSeq(s, 7, Len(s)))
  ELSE IF Len(s) >= 5 /\ SubSeq(s, 1, 5) = <<"&", "#", "3", "9", ";">> THEN <<"'">> \o Unescape(SubSeq(s, 6, Len(s)))
  ELSE <<Head(s)>> \o Unescape(Tail(s))
EscapeDecodes(s) == Unescape(Escape(s)) = s
EscapeNoDangerous(s) ==
  LET r == Escape(s) IN
  /\ \A i \in 1..Len(r) : r[i] \notin {"<", ">", "\"", "'"}
  /\ \A i \in 1..Len(r) : r[i] = "&" => \E n \in {4, 5, 6} : i + n - 1 <= Len(r) /\ r[i + n - 1] = ";" /\
                                         SubSeq(r, i, i + n - 1) \in {EscapeAtom(x) : x \in HtmlSpecial}

\* addslashes: a backslash before every quote and backslash, nothing else
AddSlashes(s) == Flatten3([i \in 1..Len(s) |-> IF s[i] \in {"\\", "\"", "'"} THEN <<"\\", s[i]>> ELSE <<s[i]>>])
RECURSIVE StripSlashes(_)
StripSlashes(s) == IF s = <<>> THEN <<>> ELSE IF Head(s) = "\\" /\ Len(s) >= 2 THEN <<s[2]>> \o StripSlashes(SubSeq(s, 3, Len(s))) ELSE <<Head(s)>> \o StripSlashes(Tail(s))
AddSlashesOnlyNamed(s) == StripSlashes(AddSlashes(s)) = s /\ Len(AddSlashes(s)) = Len(s) + Cardinality({i \in 1..Len(s) : s[i] \in {"\\", "\"", "'"}})

\* escapejs: ASCII letters, space and / stay; everything else becomes \uXXXX of its code point (above the BMP: a
\* surrogate pair). pongo2 additionally turns the two characters backslash + r / n into the escapes of CR / LF (pinned by
\* its fixture): a named deviation, kept out of JsDecodes.
Hex4(a) == CASE a = "<" -> "003C" [] a = ">" -> "003E" [] a = "&" -> "0026" [] a = "\"" -> "0022" [] a = "'" -> "0027" [] a = "\\" -> "005C"
             [] a = "0" -> "0030" [] a = "7" -> "0037" [] a = "-" -> "002D" [] a = "_" -> "005F" [] a = "." -> "002E" [] a = ";" -> "003B"
             [] a = "=" -> "003D" [] a = "NL" -> "000A" [] a = "CR" -> "000D" [] a = "TAB" -> "0009" [] a = "EACUTE" -> "00E9"
             [] a = "EURO" -> "20AC" [] a = "CJK" -> "4F60" [] a = "FFFD" -> "FFFD" [] a = "%" -> "0025" [] a = "+" -> "002B" [] a = "#" -> "0023"
             [] a = "~" -> "007E" [] a = "?" -> "003F" [] a = ":" -> "003A" [] a = "," -> "002C" [] a = "(" -> "0028" [] a = "*" -> "002A"
             [] OTHER -> "????"
JsKeeps(a) == a \in Letters \cup {"r", "n", " ", "/"}
JsAtom(a) == IF JsKeeps(a) THEN <<a>> ELSE IF a = "EMOJI" THEN <<"\\uD83D\\uDE00">> ELSE IF a = "BAD" THEN <<>> ELSE <<"\\u" \o Hex4(a)>>
RECURSIVE EscapeJs(_)
EscapeJs(s) ==
  IF s = <<>> THEN <<>>
  ELSE IF Head(s) = "\\" /\ Len(s) >= 2 /\ s[2] = "r" THEN <<"\\u000D">> \o EscapeJs(SubSeq(s, 3, Len(s)))
  ELSE IF Head(s) = "\\" /\ Len(s) >= 2 /\ s[2] = "n" THEN <<"\\u000A">> \o EscapeJs(SubSeq(s, 3, Len(s)))
  ELSE JsAtom(Head(s)) \o EscapeJs(Tail(s))
JsOnlySafe(s) == \A i \in 1..Len(EscapeJs(s)) : LET p == EscapeJs(s)[i] IN JsKeeps(p) \/ (Len(p) >= 6 /\ SubSeq(p, 1, 2) = "\\u")

\* urlencode (query escaping): unreserved characters stay, space becomes +, every other byte %XX of the UTF-8 encoding
Unreserved(a) == a \in Letters \cup DigitsA \cup {"r", "n", "-", "_", ".", "~"}
Pct(a) == CASE a = "<" -> "%3C" [] a = ">" -> "%3E" [] a = "&" -> "%26" [] a = "\"" -> "%22" [] a = "'" -> "%27" [] a = "\\" -> "%5C"
            [] a = "/" -> "%2F" [] a = ";" -> "%3B" [] a = "=" -> "%3D" [] a = "NL" -> "%0A" [] a = "CR" -> "%0D" [] a = "TAB" -> "%09"
            [] a = "EACUTE" -> "%C3%A9" [] a = "EURO" -> "%E2%82%AC" [] a = "CJK" -> "%E4%BD%A0" [] a = "EMOJI" -> "%F0%9F%98%80"
            [] a = "FFFD" -> "%EF%BF%BD" [] a = "%" -> "%25" [] a = "+" -> "%2B" [] a = "#" -> "%23" [] a = "?" -> "%3F" [] a = ":" -> "%3A"
            [] a = "," -> "%2C" [] a = "(" -> "%28" [] a = "*" -> "%2A" [] a = "BAD" -> "%FF" [] OTHER -> "%??"
UrlAtom(a) == IF Unreserved(a) THEN a ELSE IF a = " " THEN "+" ELSE Pct(a)
UrlEncode(s) == [i \in 1..Len(s) |-> UrlAtom(s[i])]
\* iriencode: its reserved set and the unreserved characters stay
IriKeeps(a) == a \in {"/", "#", "%", "[", "]", "=", ":", ";", "$", "&", "(", ")", "+", ",", "!", "?", "*", "@", "'", "~"}
IriEncode(s) == [i \in 1..Len(s) |-> IF IriKeeps(s[i]) THEN s[i] ELSE IF s[i] = "BAD" THEN "%EF%BF%BD" ELSE UrlAtom(s[i])]

\* striptags: every <...> span goes (an unclosed < stays), then surrounding white space is trimmed
RECURSIVE StripTagsRaw(_)
StripTagsRaw(s) ==
  IF s = <<>> THEN <<>>
  ELSE IF Head(s) = "<" THEN
         LET closes == {j \in 2..Len(s) : s[j] = ">"} IN
         IF closes = {} THEN <<Head(s)>> \o StripTagsRaw(Tail(s))
         ELSE StripTagsRaw(SubSeq(s, (CHOOSE m \in closes : \A j \in closes : m <= j) + 1, Len(s)))
  ELSE <<Head(s)>> \o StripTagsRaw(Tail(s))
RECURSIVE TrimL(_), TrimR(_)
TrimL(s) == IF s # <<>> /\ IsWS(Head(s)) THEN TrimL(Tail(s)) ELSE s
TrimR(s) == IF s # <<>> /\ IsWS(s[Len(s)]) THEN TrimR(SubSeq(s, 1, Len(s) - 1)) ELSE s
StripTags(s) == TrimR(TrimL(StripTagsRaw(s)))
NoCompleteTag(s) == LET r == StripTags(s) IN ~\E i \in 1..Len(r) : \E j \in (i + 1)..Len(r) : r[i] = "<" /\ r[j] = ">"

\* removetags:"b": the tags <b>, </b>, <b/>, </b/> of the named one-letter tags go, nothing else
RECURSIVE RemoveTag(_, _)
RemoveTag(s, tg) ==
  IF s = <<>> THEN <<>>
  ELSE IF Len(s) >= 3 /\ SubSeq(s, 1, 3) = <<"<", tg, ">">> THEN RemoveTag(SubSeq(s, 4, Len(s)), tg)
  ELSE IF Len(s) >= 4 /\ SubSeq(s, 1, 4) = <<"<", "/", tg, ">">> THEN RemoveTag(SubSeq(s, 5, Len(s)), tg)
  ELSE IF Len(s) >= 4 /\ SubSeq(s, 1, 4) = <<"<", tg, "/", ">">> THEN RemoveTag(SubSeq(s, 5, Len(s)), tg)
  ELSE IF Len(s) >= 5 /\ SubSeq(s, 1, 5) = <<"<", "/", tg, "/", ">">> THEN RemoveTag(SubSeq(s, 6, Len(s)), tg)
  ELSE <<Head(s)>> \o RemoveTag(Tail(s), tg)
RemoveTags(s, tg) == TrimR(TrimL(RemoveTag(s, tg)))

\* spaceless (C15): exactly the maximal white-space runs that lie between two complete tags go. A run is between two
\* tags when it is preceded by '>' that closes a '<' on the same line and followed by '<' that is closed by '>' on its line.
\* (SpWS, Removable, MaxRun, Spaceless: defined in PongoRender, which the spaceless tag uses)
=============================================================================
