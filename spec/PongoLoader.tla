------------------------------- MODULE PongoLoader -------------------------------
(***************************************************************************)
(* Composition through loaders (C11).                                      *)
(*                                                                         *)
(* A set has an ordered list of loaders; each loader is a virtual file      *)
(* tree (path -> template).  A path is a tuple of segments; a name as       *)
(* written in a template is [rooted, segs] where segs may contain "..".     *)
(* Abs(base, name): a rooted name is taken from the loader's root, any      *)
(* other name is joined to the directory of the referring template.         *)
(* Resolution asks the loaders in order; the first that has the path wins.  *)
(*                                                                         *)
(* A template is a tuple of items: text(s) | ref(kind, name) with kind in   *)
(*   "include" (static), "include_if" (static, if_exists), "lazy" (computed *)
(*   rooted name), "lazy_if", "extends", "import", "ssi", "ssi_parsed".     *)
(* Rendering returns [out, err, asked] where asked is the set of paths the  *)
(* loaders were asked for.  ssi (plain) yields the file's text uninterpreted *)
(* (piece <<"RAW", loader, path>>).                                         *)
(***************************************************************************)
EXTENDS Integers, Sequences, FiniteSets, TLC

Text(s) == [t |-> "text", s |-> s]
Ref(kind, name) == [t |-> "ref", kind |-> kind, name |-> name]
\* the one block of a template: in a template that extends it overrides the parent's; what it refers to is resolved
\* relative to the template it is *written* in, wherever it ends up being rendered
Block(items) == [t |-> "block", items |-> items]
NoOv == [has |-> FALSE, p |-> <<>>, items |-> <<>>]
\* a computed include executed several times in one execution, each time with another name:  for n in names: [include n]
Loop(kind, names) == [t |-> "loop", kind |-> kind, names |-> names]
RECURSIVE LoopItems(_, _, _)
LoopItems(kind, names, i) == IF i > Len(names) THEN <<>> ELSE <<Text("["), Ref(kind, names[i]), Text("]")>> \o LoopItems(kind, names, i + 1)
Name(rooted, segs) == [rooted |-> rooted, segs |-> segs]

RECURSIVE Clean(_, _)
\* normalise: ".." removes the preceding segment (stays at the root)
Clean(segs, acc) == IF segs = <<>> THEN acc
                    ELSE IF Head(segs) = ".." THEN Clean(Tail(segs), IF acc = <<>> THEN <<>> ELSE SubSeq(acc, 1, Len(acc) - 1))
                    ELSE IF Head(segs) = "." THEN Clean(Tail(segs), acc)
                    ELSE Clean(Tail(segs), Append(acc, Head(segs)))
Dir(path) == IF path = <<>> THEN <<>> ELSE SubSeq(path, 1, Len(path) - 1)
Abs(base, name) == IF name.rooted THEN Clean(name.segs, <<>>) ELSE Clean(Dir(base) \o name.segs, <<>>)

\* loaders: tuple of functions path -> template (tuple of items)
Has(loader, path) == path \in DOMAIN loader
FirstWith(loaders, path) == LET S == {i \in 1..Len(loaders) : Has(loaders[i], path)} IN
                            IF S = {} THEN 0 ELSE CHOOSE m \in S : \A j \in S : m <= j
\* the loaders asked for path: all up to and including the first that has it
Asked(loaders, path) == LET f == FirstWith(loaders, path) IN
                        {<<i, path>> : i \in 1..(IF f = 0 THEN Len(loaders) ELSE f)}

R(out, err, asked) == [out |-> out, err |-> err, asked |-> asked]

RECURSIVE RenderItems(_, _, _, _, _, _), Compile(_, _, _, _), RenderFile(_, _, _, _)

\* Compile(loaders, path, content, fuel): what compiling a template fetches and whether it fails: static references are
\* resolved and compiled at compile time (also in branches never executed)
Compile(loaders, path, items, fuel) ==
  IF items = <<>> \/ fuel = 0 THEN R(<<>>, IF fuel = 0 THEN "cycle" ELSE "", {})
  ELSE LET it == Head(items) IN
       LET here ==
         IF it.t = "block" THEN Compile(loaders, path, it.items, fuel)
         ELSE IF it.t = "loop" THEN R(<<>>, "", {})                  \* (computed names: nothing is fetched at compile time)
         ELSE IF it.t = "text" \/ it.kind \in {"lazy", "lazy_if"} THEN R(<<>>, "", {})
         ELSE LET p == Abs(path, it.name) IN
              LET f == FirstWith(loaders, p) IN
              IF f = 0 THEN R(<<>>, IF it.kind = "include_if" THEN "" ELSE "missing", Asked(loaders, p))
              ELSE IF it.kind = "ssi" THEN R(<<>>, "", Asked(loaders, p))
              ELSE LET c == Compile(loaders, p, loaders[f][p], fuel - 1) IN R(<<>>, c.err, Asked(loaders, p) \cup c.asked)
       IN IF here.err # "" THEN here
          ELSE LET rest == Compile(loaders, path, Tail(items), fuel) IN R(<<>>, rest.err, here.asked \cup rest.asked)

\* a template that extends renders its parent's document (what it writes itself outside blocks is ignored)
ExtendsOf(items) == LET S == {i \in 1..Len(items) : items[i].t = "ref" /\ items[i].kind = "extends"} IN
                    IF S = {} THEN 0 ELSE CHOOSE i \in S : TRUE
\* rendering the (compiled) template at path p: its own items, or - if it extends - its parent's
BlockOf(items) == LET S == {i \in 1..Len(items) : items[i].t = "block"} IN IF S = {} THEN 0 ELSE CHOOSE i \in S : TRUE
\* ov: the overriding block of a more-derived template (with the path of the template it is written in), if any
RenderFile(loaders, p, fuel, ov) ==
  LET items == loaders[FirstWith(loaders, p)][p] IN
  LET e == ExtendsOf(items) IN
  LET b == BlockOf(items) IN
  LET ov1 == IF ov.has THEN ov ELSE IF b # 0 THEN [has |-> TRUE, p |-> p, items |-> items[b].items] ELSE NoOv IN
  IF fuel = 0 THEN R(<<>>, "cycle", {})
  ELSE IF e = 0 THEN RenderItems(loaders, p, items, R(<<>>, "", {}), fuel, ov)
  ELSE RenderFile(loaders, Abs(p, items[e].name), fuel - 1, ov1)

\* execution of a compiled template's items
RenderItems(loaders, path, items, acc, fuel, ov) ==
  IF items = <<>> THEN acc
  ELSE IF acc.err # "" THEN acc
  ELSE LET it == Head(items) IN
       LET step ==
         CASE it.t = "text" -> R(<<it.s>>, "", {})
           [] it.t = "loop" -> RenderItems(loaders, path, LoopItems(it.kind, it.names, 1), R(<<>>, "", {}), fuel, NoOv)
           [] it.t = "block" -> IF ov.has THEN RenderItems(loaders, ov.p, ov.items, R(<<>>, "", {}), fuel, NoOv)
                                ELSE RenderItems(loaders, path, it.items, R(<<>>, "", {}), fuel, NoOv)
           [] it.kind \in {"include", "include_if", "ssi_parsed"} ->
                LET p == Abs(path, it.name) IN LET f == FirstWith(loaders, p) IN
                IF f = 0 THEN R(<<>>, "", {}) ELSE RenderFile(loaders, p, fuel - 1, NoOv)
           [] it.kind \in {"lazy", "lazy_if"} ->
                \* compiled when executed: fetch, compile (with everything it statically refers to), render
                LET p == Abs(path, it.name) IN LET f == FirstWith(loaders, p) IN
                IF f = 0 THEN R(<<>>, IF it.kind = "lazy_if" THEN "" ELSE "missing", Asked(loaders, p))
                ELSE LET c == Compile(loaders, p, loaders[f][p], fuel - 1) IN
                     IF c.err # "" THEN R(<<>>, c.err, Asked(loaders, p) \cup c.asked)
                     ELSE LET r == RenderFile(loaders, p, fuel - 1, NoOv) IN
                          R(r.out, r.err, Asked(loaders, p) \cup c.asked \cup r.asked)
           [] it.kind = "ssi" ->
                LET p == Abs(path, it.name) IN LET f == FirstWith(loaders, p) IN R(<<<<"RAW", f, p>>>>, "", {})
           [] it.kind = "import" -> R(<<>>, "", {})
           [] it.kind = "extends" -> R(<<>>, "", {})
       IN RenderItems(loaders, path, Tail(items), R(acc.out \o step.out, step.err, acc.asked \cup step.asked), fuel, ov)

\* FromFile(root) and Execute: [out, err, asked]
Render(loaders, rootName, fuel) ==
  LET p == Abs(<<>>, rootName) IN
  LET f == FirstWith(loaders, p) IN
  IF f = 0 THEN R(<<>>, "missing", Asked(loaders, p))
  ELSE LET items == loaders[f][p] IN
       LET c == Compile(loaders, p, items, fuel) IN
       IF c.err # "" THEN R(<<>>, c.err, Asked(loaders, p) \cup c.asked)
       ELSE LET r == RenderFile(loaders, p, fuel, NoOv) IN
            R(r.out, r.err, Asked(loaders, p) \cup c.asked \cup r.asked)

\* ---- properties of the definition
\* every path asked for is the resolution of a name written in a template that was itself obtained through the loaders
\* (OnlyReferenced holds by construction of Asked; it is checked on the implementation's loader log)
\* first loader wins: what is rendered for a path comes from the first loader that has it
FirstLoaderWins(loaders, path) == LET f == FirstWith(loaders, path) IN f # 0 => \A i \in 1..(f - 1) : ~Has(loaders[i], path)
=============================================================================
