-------------------------------- MODULE PongoApi --------------------------------
(***************************************************************************)
(* C01 totality.  Two parts.                                               *)
(*                                                                         *)
(* 1. The public API as an outcome machine: a template source is compiled   *)
(*    (result: template or error) and a compiled template is executed       *)
(*    (result: output or error).  There is no action for a panic, for the   *)
(*    death of the process or for a call that does not return: a recorded   *)
(*    trace that contains one is rejected (Trace_PongoApi).                 *)
(*                                                                         *)
(* 2. The surface grammar of the template language as a generator: a        *)
(*    sentential form is rewritten leftmost-first by any production.  Tags  *)
(*    and filters are CONSTANT sets instantiated from the live registries   *)
(*    (so a tag or filter added by a change enters automatically); names    *)
(*    are the keys of the harness's value universe.  Productions            *)
(*    deliberately include the ill-typed and the ill-formed (unknown names, *)
(*    wrong key types, out-of-range numbers, missing end tags, stray        *)
(*    delimiters, unclosed strings).  TLC's simulation mode draws random    *)
(*    derivations; every finished derivation is one program.               *)
(***************************************************************************)
EXTENDS Integers, Sequences, FiniteSets, TLC

CONSTANTS RegTags, RegFilters, CtxNames, Budget

----------------------------------------------------------------------------
(* 1. API outcome machine *)

VARIABLES phase,     \* "fresh" | "compiled" | "failed"
          last       \* last outcome: "" | "CompileOk" | "CompileErr" | "ExecOk" | "ExecErr"
apiVars == <<phase, last>>
ApiInit == phase = "fresh" /\ last = ""
Compile(ok) == /\ phase = "fresh"
               /\ phase' = IF ok THEN "compiled" ELSE "failed"
               /\ last' = IF ok THEN "CompileOk" ELSE "CompileErr"
Execute(ok) == /\ phase = "compiled"
               /\ last' = IF ok THEN "ExecOk" ELSE "ExecErr"
               /\ UNCHANGED phase
NewSource == phase' = "fresh" /\ last' = ""
\* the set's earlier history: another template of the set is fetched through the cache before the source is compiled
Warm(ok) == /\ phase = "fresh"
            /\ last' = IF ok THEN "WarmOk" ELSE "WarmErr"
            /\ UNCHANGED phase
ApiNext == (\E ok \in BOOLEAN : Compile(ok) \/ Execute(ok) \/ Warm(ok)) \/ NewSource
\* every call returns one of the two documented outcomes
OutcomeTotal == last \in {"", "CompileOk", "CompileErr", "ExecOk", "ExecErr", "WarmOk", "WarmErr"}
ExecOnlyAfterCompile == [][last' \in {"ExecOk", "ExecErr"} => phase = "compiled"]_apiVars

----------------------------------------------------------------------------
(* 2. grammar *)

VARIABLES form,      \* sentential form: tuple of strings; nonterminals are "<Doc>", "<Node>", "<Expr>", "<Atom>", "<Chain>", "<Arg>", "<Args>"
          steps
genVars == <<form, steps>>

NonTerminals == {"<Doc>", "<Node>", "<Expr>", "<Atom>", "<Chain>", "<Arg>", "<Args>", "<Body>", "<Name>"}
IsNT(s) == s \in NonTerminals

Texts == {"x", " ", "\n", "<b>", "{", "}", "%", "\t", "UTF8", "'", "\"", "BYTE01", "BADUTF8"}
Ints == {"0", "1", "2", "7", "100", "99999999999999999999", "007"}
Strs == {"\"a\"", "\"\"", "'b'", "\"a b\"", "\"%d\"", "\"2006\"", "\"0:1\"", "\"x,y\"", "\"\\\\\"", "\"<i>\""}
Ops == {"+", "-", "*", "/", "%", "^", "==", "!=", "<", ">", "<=", ">=", "in", "and", "or", "&&", "||", "<>"}

\* the generic tag shapes (valid for some tag, invalid for most: both matter) and the shapes of the built-in tags
TagShapes(t) ==
  { <<"{% ", t, " %}">>, <<"{% ", t, " ", "<Expr>", " %}">>, <<"{% ", t, " ", "<Expr>", " ", "<Expr>", " %}">>,
    <<"{% ", t, " %}", "<Body>", "{% end", t, " %}">>, <<"{% ", t, " ", "<Expr>", " %}", "<Body>", "{% end", t, " %}">>,
    <<"{% ", t, " ", "<Expr>", " ", "<Expr>", " ", "<Expr>", " %}">>, <<"{% ", t, " x=", "<Expr>", " %}", "<Body>", "{% end", t, " %}">> }
BuiltinShapes ==
  { <<"{% if ", "<Expr>", " %}", "<Body>", "{% elif ", "<Expr>", " %}", "<Body>", "{% else %}", "<Body>", "{% endif %}">>,
    <<"{% for i in ", "<Expr>", " %}", "<Body>", "{{ forloop.Counter }}{{ forloop.Parentloop.Last }}{% empty %}", "<Body>", "{% endfor %}">>,
    <<"{% for k, v in ", "<Expr>", " reversed sorted %}", "<Body>", "{% endfor %}">>,
    \* names a template binds itself, including the names the engine binds (forloop, block) and names bound twice
    <<"{% for ", "<Name>", " in ", "<Expr>", " %}", "<Body>", "{{ ", "<Name>", " }}{% for ", "<Name>", ", ", "<Name>", " in ", "<Expr>", " %}", "<Body>", "{% endfor %}{% endfor %}">>,
    <<"{% with ", "<Name>", "=", "<Expr>", " %}", "<Body>", "{% endwith %}">>,
    <<"{% set ", "<Name>", " = ", "<Expr>", " %}", "<Body>">>,
    <<"{% macro ", "<Name>", "(", "<Name>", ", ", "<Name>", "=", "<Expr>", ") %}", "<Body>", "{% endmacro %}{{ ", "<Name>", "(", "<Args>", ") }}">>,
    <<"{% for i in ", "<Expr>", " %}{% cycle ", "<Name>", " ", "<Expr>", " as ", "<Name>", " %}{% cycle ", "<Name>", " %}{{ ", "<Name>", " }}{% endfor %}">>,
    <<"{% for i in ", "<Expr>", " %}{% cycle ", "<Name>", " as ", "<Name>", " silent %}{% cycle ", "<Name>", " %}", "<Body>", "{% endfor %}">>,
    <<"{% widthratio ", "<Expr>", " ", "<Expr>", " ", "<Expr>", " as ", "<Name>", " %}", "<Body>">>,
    <<"{% import \"/lib\" lm as ", "<Name>", " %}", "<Body>">>,
    <<"{% block ", "<Name>", " %}", "<Body>", "{% endblock %}">>,
    <<"{% with a=", "<Expr>", " b=", "<Expr>", " %}", "<Body>", "{% endwith %}">>,
    <<"{% with ", "<Expr>", " as a %}", "<Body>", "{% endwith %}">>,
    <<"{% set a = ", "<Expr>", " %}">>,
    <<"{% macro m(p, q=", "<Expr>", ") %}", "<Body>", "{% endmacro %}{{ m(", "<Args>", ") }}">>,
    <<"{% macro r(n) %}{{ r(n) }}{% endmacro %}{{ r(1) }}">>,
    <<"{% ifequal ", "<Expr>", " ", "<Expr>", " %}", "<Body>", "{% else %}", "<Body>", "{% endifequal %}">>,
    <<"{% ifnotequal ", "<Expr>", " ", "<Expr>", " %}", "<Body>", "{% endifnotequal %}">>,
    <<"{% firstof ", "<Expr>", " ", "<Expr>", " %}">>,
    <<"{% cycle ", "<Expr>", " ", "<Expr>", " as c %}{% cycle c %}">>,
    <<"{% ifchanged ", "<Expr>", " %}", "<Body>", "{% else %}", "<Body>", "{% endifchanged %}">>,
    <<"{% filter ", "<Chain>", " %}", "<Body>", "{% endfilter %}">>,
    <<"{% autoescape off %}", "<Body>", "{% endautoescape %}">>,
    <<"{% spaceless %}", "<Body>", "{% endspaceless %}">>,
    <<"{% block b %}", "<Body>", "{{ block.Super }}{% endblock %}">>,
    <<"{% include ", "<Expr>", " with a=", "<Expr>", " only %}">>, <<"{% include selfname %}">>, <<"{% include laname if_exists %}">>, <<"{% include \"/la\" %}{% include \"/lazyself\" %}">>, <<"{% include \"/inc\" if_exists %}">>, <<"{% include \"/self\" %}">>,
    <<"{% extends \"/base\" %}{% block b %}", "<Body>", "{% endblock %}">>, <<"{% extends ", "<Expr>", " %}">>,
    <<"{% import \"/lib\" lm, lm as z %}{{ z(", "<Args>", ") }}">>,
    <<"{% ssi \"/inc\" parsed %}">>, <<"{% ssi \"/inc\" %}">>,
    <<"{% widthratio ", "<Expr>", " ", "<Expr>", " ", "<Expr>", " as w %}{{ w }}">>,
    <<"{% lorem ", "<Atom>", " w random %}">>, <<"{% lorem 100001 %}">>, <<"{% now \"2006\" fake %}">>,
    <<"{% templatetag ", "<Atom>", " %}">>, <<"{% comment %}", "<Body>", "{% endcomment %}">>,
    <<"{% verbatim %}", "<Body>", "{% endverbatim %}">>, <<"{# ", "<Atom>", " #}">> }
Broken == { <<"{{">>, <<"{%">>, <<"%}">>, <<"}}">>, <<"{#">>, <<"{% endif %}">>, <<"{% else %}">>, <<"{% nosuchtag %}">>, <<"{{ \"unclosed }}">>,
            <<"{{ a\nb }}">>, <<"{% if %}">>, <<"{% for %}">>, <<"{{ 1 +">>, <<"{{ (1 }}">>, <<"{{ x|nosuchfilter }}">>, <<"{{ x| }}">>, <<"{% endverbatim %}">>,
            <<"{{ x.. }}">>, <<"{{ x[ }}">>, <<"{{ f( }}">>, <<"{{- x -}}">>, <<"{%- if 1 -%}">>, <<"{% block b %}">> }

Prods(nt) ==
  CASE nt = "<Doc>" -> { <<"<Node>", "<Doc>">>, <<"<Node>", "<Node>", "<Doc>">>, <<"<Node>", "<Node>">>, <<"<Node>", "<Node>", "<Node>">> }
    [] nt = "<Body>" -> { <<"<Node>">>, <<"<Node>", "<Node>">>, <<"<Node>", "<Doc>">>, <<>> }
    [] nt = "<Node>" -> { <<t>> : t \in Texts } \cup { <<"{{ ", "<Expr>", " }}">> } \cup BuiltinShapes \cup Broken
                        \cup UNION { TagShapes(t) : t \in RegTags }
    [] nt = "<Expr>" -> { <<"<Atom>">>, <<"<Atom>", "|", "<Chain>">> } \cup { <<"<Expr>", " ", op, " ", "<Expr>">> : op \in Ops }
                        \cup { <<"(", "<Expr>", ")">>, <<"not ", "<Expr>">>, <<"-", "<Expr>">>, <<"<Atom>", "[", "<Expr>", "]">>,
                               <<"<Atom>", "(", "<Args>", ")">>, <<"[", "<Args>", "]">> }
    [] nt = "<Atom>" -> { <<n>> : n \in CtxNames \cup Ints \cup Strs \cup {"true", "false", "nope", "1.5", "0.5", "0.25", "forloop", "block"} }
                        \cup { <<n, ".", m>> : n \in CtxNames, m \in {"F", "h", "k", "0", "9", "M0", "M1", "nope", "Counter", "Super", "1", "2"} }
    [] nt = "<Chain>" -> { <<f>> : f \in RegFilters } \cup { <<f, ":", "<Arg>">> : f \in RegFilters } \cup { <<f, "|", "<Chain>">> : f \in RegFilters }
    [] nt = "<Arg>" -> { <<a>> : a \in Ints \cup Strs \cup CtxNames \cup {"-1", "99999", "nope"} }
    [] nt = "<Name>" -> { <<n>> : n \in {"a", "i", "forloop", "block", "m", "c", "x", "true", "in", "lm", "nope", "9", "a.b", "_"} } \cup { <<n>> : n \in CtxNames }
    [] nt = "<Args>" -> { <<>>, <<"<Expr>">>, <<"<Expr>", ", ", "<Expr>">>, <<"<Expr>", ", ", "<Expr>", ", ", "<Expr>">> }
\* when the budget is used up every nonterminal takes its shortest terminal production
MinProd(nt) == CASE nt = "<Doc>" -> <<>> [] nt = "<Body>" -> <<>> [] nt = "<Node>" -> <<"x">> [] nt = "<Expr>" -> <<"1">> [] nt = "<Atom>" -> <<"x">>
                 [] nt = "<Chain>" -> <<"upper">> [] nt = "<Arg>" -> <<"1">> [] nt = "<Args>" -> <<>> [] nt = "<Name>" -> <<"forloop">>

LeftmostNT == LET S == {i \in 1..Len(form) : IsNT(form[i])} IN IF S = {} THEN 0 ELSE CHOOSE m \in S : \A j \in S : m <= j
Replace(i, p) == SubSeq(form, 1, i - 1) \o p \o SubSeq(form, i + 1, Len(form))

GenInit == form = <<"<Doc>">> /\ steps = 0
Expand ==
  LET i == LeftmostNT IN
  /\ i # 0
  /\ steps' = steps + 1
  /\ IF steps < Budget THEN \E p \in Prods(form[i]) : form' = Replace(i, p)
     ELSE form' = Replace(i, MinProd(form[i]))
GenDone == LeftmostNT = 0
GenNext == Expand
=============================================================================
